//! Stand-in for the liblzma FFI when running under Miri (which cannot cross
//! FFI): every call reports "unavailable". Only the C07 Miri slice uses this.
#![allow(dead_code)]

pub const FILTER_X86: u64 = 0x04;
pub const FILTER_POWERPC: u64 = 0x05;
pub const FILTER_IA64: u64 = 0x06;
pub const FILTER_ARM: u64 = 0x07;
pub const FILTER_ARMTHUMB: u64 = 0x08;
pub const FILTER_SPARC: u64 = 0x09;

#[derive(Clone, Copy, Debug)]
pub struct EncOpts {
    pub lc: u32,
    pub lp: u32,
    pub pb: u32,
    pub dict_size: u32,
    pub mode: i32,
    pub nice_len: u32,
    pub mf: i32,
    pub depth: u32,
}

impl Default for EncOpts {
    fn default() -> Self {
        EncOpts { lc: 3, lp: 0, pb: 2, dict_size: 4096, mode: 2, nice_len: 64, mf: 0x14, depth: 0 }
    }
}

pub struct Decoded {
    pub ret: i32,
    pub out: Vec<u8>,
    pub total_in: u64,
}

impl Decoded {
    pub fn ok(&self) -> bool {
        false
    }
}

fn na() -> Decoded {
    Decoded { ret: -100, out: vec![], total_in: 0 }
}

#[derive(Clone, Copy, Debug, PartialEq, Eq)]
pub enum PreFilter {
    None,
    Delta(u32),
    Bcj(u64),
}

pub fn version() -> u32 {
    0
}
pub fn alone_encode(_: &[u8], _: &EncOpts) -> Option<Vec<u8>> {
    None
}
pub fn alone_decode(_: &[u8]) -> Decoded {
    na()
}
pub fn lzma2_raw_encode(_: &[u8], _: &EncOpts, _: &[usize]) -> Option<Vec<u8>> {
    None
}
pub fn lzma2_raw_decode(_: &[u8], _: u32) -> Decoded {
    na()
}
pub fn xz_encode(_: &[u8], _: &EncOpts, _: i32, _: PreFilter, _: &[usize]) -> Option<Vec<u8>> {
    None
}
pub fn xz_decode(_: &[u8], _: bool) -> Decoded {
    na()
}
pub fn xz_decode_ignore_check(_: &[u8]) -> Decoded {
    na()
}

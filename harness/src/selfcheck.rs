//! Oracle self-check: the reference model against system liblzma, in both
//! directions. A failure here means the oracle is wrong (=> inconclusive),
//! never that lzma-rs is.

use crate::gen::l2gen::{gen_chunks, L2Params};
use crate::gen::prog::{structured_data, ProgGen, ProgParams};
use crate::liblzma as ll;
use crate::refmodel::crc::{crc32, crc64, sha256};
use crate::refmodel::lzma::{decode, encode_program, DecStop, Model, Props};
use crate::refmodel::lzma2;
use crate::refmodel::program::{interpret, Interp, InterpStop, Sym};
use crate::refmodel::xz::{self, BlockOpts, BlockSpec, XzSpec, XzVerdict};
use crate::util::{hex, Rng};

pub fn alone_header(props: Props, dict: u32, size: Option<u64>) -> Vec<u8> {
    let mut h = vec![props.byte()];
    h.extend_from_slice(&dict.to_le_bytes());
    h.extend_from_slice(&size.unwrap_or(u64::MAX).to_le_bytes());
    h
}

pub fn run(seed: u64, rounds: usize) -> Result<String, String> {
    let mut rng = Rng::for_case(seed, "selfcheck", 0);
    // 0. digests
    if crc32(b"123456789") != 0xCBF4_3926 {
        return Err("crc32 vector".into());
    }
    if crc64(b"123456789") != 0x995D_C9BB_DF19_39FA {
        return Err("crc64 vector".into());
    }
    if hex(&sha256(b"abc")) != "ba7816bf8f01cfea414140de5dae2223b00361a396177a9cb410ff61f20015ad" {
        return Err("sha256 vector".into());
    }
    let mut n_checks = 0usize;
    let all_props: Vec<Props> = {
        let mut v = Vec::new();
        for lc in 0..=4 {
            for lp in 0..=(4 - lc) {
                for pb in 0..=4 {
                    v.push(Props::new(lc, lp, pb));
                }
            }
        }
        v
    };
    for round in 0..rounds {
        // 1. liblzma .lzma encoder -> RefDecoder
        let props = *rng.pick(&all_props);
        let n0 = rng.range(0, 20000) as usize;
        let plain = structured_data(&mut rng, n0);
        let eo = ll::EncOpts {
            lc: props.lc,
            lp: props.lp,
            pb: props.pb,
            dict_size: 4096,
            mode: *rng.pick(&[1, 2]),
            nice_len: rng.range(5, 273) as u32,
            mf: *rng.pick(&[0x03, 0x04, 0x12, 0x13, 0x14]),
            depth: 0,
        };
        // fast mode only works with hash chains
        let eo = if eo.mode == 1 && eo.mf > 0x04 {
            ll::EncOpts { mf: 0x04, ..eo }
        } else if eo.mode == 2 && eo.mf <= 0x04 {
            ll::EncOpts { mf: 0x14, ..eo }
        } else {
            eo
        };
        let enc = ll::alone_encode(&plain, &eo).ok_or("liblzma alone_encode failed")?;
        if enc.len() < 13 || enc[0] != props.byte() {
            return Err("liblzma alone header unexpected".into());
        }
        let mut model = Model::new(props);
        let mut hist = Vec::new();
        let r = decode(&mut model, &mut hist, &enc[13..], None, 4096);
        if !matches!(r.stop, DecStop::Marker { code_zero: true }) || r.consumed != enc.len() - 13 {
            return Err(format!(
                "round {}: RefDecoder on liblzma .lzma: stop {:?} consumed {} of {}",
                round,
                r.stop,
                r.consumed,
                enc.len() - 13
            ));
        }
        if hist != plain {
            return Err(format!("round {}: RefDecoder output differs from plaintext", round));
        }
        n_checks += 1;

        // 2. RefEncoder -> liblzma .lzma decoder
        let mut it = Interp::new();
        let mut pg = ProgGen::new();
        let dict: u32 = *rng.pick(&[4096u32, 8192, 1 << 16]);
        let mut pp = ProgParams::standard(rng.range(1, 1500) as usize, dict as u64);
        pp.long_bias = rng.chance(1, 4);
        let mut prog = pg.generate(&mut rng, &pp, &mut it);
        let with_marker = rng.chance(1, 2);
        if with_marker {
            prog.push(Sym::Eos);
        }
        let (payload, table, out) =
            encode_program(&prog, props).map_err(|e| format!("encode_program: {:?}", e))?;
        let (iout, istop) = interpret(&prog);
        if iout != out
            || !(matches!(istop, InterpStop::Done) || matches!(istop, InterpStop::Eos(_)))
        {
            return Err("encoder history differs from interpret()".into());
        }
        if table.last().map(|t| t.consumed as usize) != Some(payload.len()) {
            return Err(format!(
                "round {}: eager decoder consumption {} != payload length {}",
                round,
                table.last().map(|t| t.consumed).unwrap_or(0),
                payload.len()
            ));
        }
        let mut file = alone_header(props, dict, if with_marker { None } else { Some(out.len() as u64) });
        file.extend_from_slice(&payload);
        let d = ll::alone_decode(&file);
        if !d.ok() || d.out != out || d.total_in as usize != file.len() {
            return Err(format!(
                "round {}: liblzma rejects/differs on RefEncoder stream (ret {}, {} bytes out, expected {}, in {}/{})",
                round,
                d.ret,
                d.out.len(),
                out.len(),
                d.total_in,
                file.len()
            ));
        }
        // and the model decodes its own stream, with identical tables
        let mut model = Model::new(props);
        let mut hist = Vec::new();
        let r = decode(
            &mut model,
            &mut hist,
            &payload,
            if with_marker { None } else { Some(out.len() as u64) },
            dict as u64,
        );
        let good = if with_marker {
            matches!(r.stop, DecStop::Marker { code_zero: true })
        } else {
            matches!(r.stop, DecStop::SizeReached)
        };
        if !good || hist != out || r.consumed != payload.len() || r.table != table {
            return Err(format!(
                "round {}: RefDecoder on RefEncoder stream: {:?}, consumed {}/{}",
                round,
                r.stop,
                r.consumed,
                payload.len()
            ));
        }
        n_checks += 2;

        // 3. Lzma2Writer -> liblzma raw LZMA2 decoder, and strict reader
        let mut lp = L2Params::standard(rng.range(1, 8) as usize, 400);
        lp.extremes = round % 7 == 3;
        let chunks = gen_chunks(&mut rng, &lp);
        let w = lzma2::write(&chunks).map_err(|e| format!("lzma2 write: {:?}", e))?;
        let d = ll::lzma2_raw_decode(&w.bytes, 1 << 26);
        if !d.ok() || d.out != w.output || d.total_in as usize != w.bytes.len() {
            return Err(format!(
                "round {}: liblzma LZMA2 rejects/differs on Lzma2Writer stream (ret {}, out {} vs {}, in {}/{}) chunks {:?}",
                round,
                d.ret,
                d.out.len(),
                w.output.len(),
                d.total_in,
                w.bytes.len(),
                chunks.iter().map(|c| c.short()).collect::<Vec<_>>()
            ));
        }
        match lzma2::read(&w.bytes, true, true) {
            Ok(r) if r.output == w.output && r.consumed == w.bytes.len() => {}
            Ok(_) => return Err("lzma2 strict reader: output differs".into()),
            Err(e) => return Err(format!("lzma2 strict reader rejects writer stream: {:?}", e)),
        }
        n_checks += 2;

        // 4. liblzma raw LZMA2 encoder (with sync flushes) -> strict reader
        let p2 = *rng.pick(&all_props);
        let n2 = rng.range(1, 150000) as usize;
        let plain2 = structured_data(&mut rng, n2);
        let flushes: Vec<usize> = (0..rng.below(4)).map(|_| rng.usize_below(plain2.len().max(1))).collect();
        let eo2 = ll::EncOpts {
            lc: p2.lc,
            lp: p2.lp,
            pb: p2.pb,
            dict_size: 4096,
            ..Default::default()
        };
        let enc2 = ll::lzma2_raw_encode(&plain2, &eo2, &flushes).ok_or("liblzma lzma2 encode failed")?;
        match lzma2::read(&enc2, true, true) {
            Ok(r) if r.output == plain2 && r.consumed == enc2.len() => {}
            Ok(_) => return Err("lzma2 strict reader: differs on liblzma stream".into()),
            Err(e) => return Err(format!("lzma2 strict reader rejects liblzma stream: {:?}", e)),
        }
        n_checks += 1;

        // 5. XzSpec -> liblzma stream decoder + strict parser
        let check = *rng.pick(&[xz::CHECK_NONE, xz::CHECK_CRC32, xz::CHECK_CRC64, xz::CHECK_SHA256]);
        let nb = rng.below(4) as usize;
        let mut blocks = Vec::new();
        for _ in 0..nb {
            let nc = rng.range(1, 4) as usize;
            let chunks = gen_chunks(&mut rng, &L2Params::standard(nc, 200));
            let w = lzma2::write(&chunks).map_err(|e| format!("lzma2 write: {:?}", e))?;
            let bo = BlockOpts {
                with_packed: rng.chance(1, 2),
                with_unpacked: rng.chance(1, 2),
                extra_header_words: rng.below(4) as usize,
                dict_prop: rng.range(xz::lzma2_dict_prop_for(w.output.len() as u64) as u64, 40) as u8,
            };
            blocks.push(BlockSpec::new(w.bytes, w.output, check, &bo));
        }
        let spec = XzSpec::new(check, blocks);
        let (file, _layout) = spec.serialize();
        let d = ll::xz_decode(&file, false);
        if !d.ok() || d.out != spec.plain() || d.total_in as usize != file.len() {
            return Err(format!(
                "round {}: liblzma rejects/differs on XzSpec file (ret {}, check {}, blocks {})",
                round, d.ret, check, nb
            ));
        }
        match xz::parse_strict(&file) {
            XzVerdict::Ok(o) if o == spec.plain() && check != xz::CHECK_SHA256 => {}
            XzVerdict::Unsupported(_) if check == xz::CHECK_SHA256 => {}
            other => {
                return Err(format!(
                    "round {}: strict parser on XzSpec file: {:?}",
                    round,
                    match other {
                        XzVerdict::Ok(_) => "Ok(differs)".to_string(),
                        XzVerdict::Unsupported(s) => format!("Unsupported({})", s),
                        XzVerdict::Invalid(s) => format!("Invalid({})", s),
                    }
                ))
            }
        }
        n_checks += 2;

        // 6. liblzma .xz encoder (multi-block) -> strict parser
        let n3 = rng.range(0, 60000) as usize;
        let plain3 = structured_data(&mut rng, n3);
        let ff: Vec<usize> = (0..rng.below(4)).map(|_| rng.usize_below(plain3.len().max(1))).collect();
        let chk = *rng.pick(&[0, 1, 4]);
        let enc3 = ll::xz_encode(&plain3, &eo2, chk, ll::PreFilter::None, &ff).ok_or("liblzma xz encode failed")?;
        match xz::parse_strict(&enc3) {
            XzVerdict::Ok(o) if o == plain3 => {}
            XzVerdict::Ok(_) => return Err("strict parser: differs on liblzma .xz".into()),
            XzVerdict::Unsupported(s) => return Err(format!("strict parser: unsupported {} on liblzma .xz", s)),
            XzVerdict::Invalid(s) => return Err(format!("strict parser rejects liblzma .xz: {}", s)),
        }
        n_checks += 1;
    }
    Ok(format!(
        "oracle self-check passed: {} cross-checks against liblzma {} in {} rounds",
        n_checks,
        ll::version(),
        rounds
    ))
}

//! Hand-written FFI to the system liblzma (5.4.x): the authoritative second
//! oracle that arbitrates between the reference model and lzma-rs.
#![allow(non_camel_case_types, dead_code)]

use std::os::raw::{c_int, c_void};

pub const LZMA_OK: c_int = 0;
pub const LZMA_STREAM_END: c_int = 1;
pub const LZMA_NO_CHECK: c_int = 2;
pub const LZMA_UNSUPPORTED_CHECK: c_int = 3;
pub const LZMA_GET_CHECK: c_int = 4;
pub const LZMA_MEM_ERROR: c_int = 5;
pub const LZMA_MEMLIMIT_ERROR: c_int = 6;
pub const LZMA_FORMAT_ERROR: c_int = 7;
pub const LZMA_OPTIONS_ERROR: c_int = 8;
pub const LZMA_DATA_ERROR: c_int = 9;
pub const LZMA_BUF_ERROR: c_int = 10;
pub const LZMA_PROG_ERROR: c_int = 11;

pub const LZMA_RUN: c_int = 0;
pub const LZMA_SYNC_FLUSH: c_int = 1;
pub const LZMA_FULL_FLUSH: c_int = 2;
pub const LZMA_FINISH: c_int = 3;

pub const FILTER_LZMA1: u64 = 0x4000_0000_0000_0001;
pub const FILTER_LZMA2: u64 = 0x21;
pub const FILTER_DELTA: u64 = 0x03;
pub const FILTER_X86: u64 = 0x04;
pub const FILTER_POWERPC: u64 = 0x05;
pub const FILTER_IA64: u64 = 0x06;
pub const FILTER_ARM: u64 = 0x07;
pub const FILTER_ARMTHUMB: u64 = 0x08;
pub const FILTER_SPARC: u64 = 0x09;
pub const VLI_UNKNOWN: u64 = u64::MAX;

pub const TELL_NO_CHECK: u32 = 0x01;
pub const TELL_UNSUPPORTED_CHECK: u32 = 0x02;
pub const CONCATENATED: u32 = 0x08;

#[repr(C)]
pub struct lzma_stream {
    next_in: *const u8,
    avail_in: usize,
    total_in: u64,
    next_out: *mut u8,
    avail_out: usize,
    total_out: u64,
    allocator: *const c_void,
    internal: *mut c_void,
    reserved_ptr1: *mut c_void,
    reserved_ptr2: *mut c_void,
    reserved_ptr3: *mut c_void,
    reserved_ptr4: *mut c_void,
    reserved_int1: u64,
    reserved_int2: u64,
    reserved_int3: usize,
    reserved_int4: usize,
    reserved_enum1: c_int,
    reserved_enum2: c_int,
    // safety margin should the real struct be larger
    _pad: [u64; 8],
}

impl lzma_stream {
    fn zeroed() -> Self {
        unsafe { std::mem::zeroed() }
    }
}

#[repr(C)]
#[derive(Clone, Copy)]
pub struct lzma_options_lzma {
    pub dict_size: u32,
    pub preset_dict: *const u8,
    pub preset_dict_size: u32,
    pub lc: u32,
    pub lp: u32,
    pub pb: u32,
    pub mode: c_int,
    pub nice_len: u32,
    pub mf: c_int,
    pub depth: u32,
    pub ext_flags: u32,
    pub ext_size_low: u32,
    pub ext_size_high: u32,
    _reserved: [u64; 16],
}

#[repr(C)]
pub struct lzma_options_delta {
    pub type_: c_int,
    pub dist: u32,
    _reserved: [u64; 8],
}

#[repr(C)]
pub struct lzma_filter {
    pub id: u64,
    pub options: *mut c_void,
}

#[link(name = "lzma")]
extern "C" {
    fn lzma_lzma_preset(options: *mut lzma_options_lzma, preset: u32) -> u8;
    fn lzma_alone_encoder(strm: *mut lzma_stream, options: *const lzma_options_lzma) -> c_int;
    fn lzma_alone_decoder(strm: *mut lzma_stream, memlimit: u64) -> c_int;
    fn lzma_raw_encoder(strm: *mut lzma_stream, filters: *const lzma_filter) -> c_int;
    fn lzma_raw_decoder(strm: *mut lzma_stream, filters: *const lzma_filter) -> c_int;
    fn lzma_stream_encoder(strm: *mut lzma_stream, filters: *const lzma_filter, check: c_int)
        -> c_int;
    fn lzma_stream_decoder(strm: *mut lzma_stream, memlimit: u64, flags: u32) -> c_int;
    fn lzma_code(strm: *mut lzma_stream, action: c_int) -> c_int;
    fn lzma_end(strm: *mut lzma_stream);
    fn lzma_version_number() -> u32;
}

pub fn version() -> u32 {
    unsafe { lzma_version_number() }
}

#[derive(Clone, Copy, Debug)]
pub struct EncOpts {
    pub lc: u32,
    pub lp: u32,
    pub pb: u32,
    pub dict_size: u32,
    /// 1 = fast, 2 = normal
    pub mode: c_int,
    pub nice_len: u32,
    /// 0x03 hc3, 0x04 hc4, 0x12 bt2, 0x13 bt3, 0x14 bt4
    pub mf: c_int,
    pub depth: u32,
}

impl Default for EncOpts {
    fn default() -> Self {
        EncOpts {
            lc: 3,
            lp: 0,
            pb: 2,
            dict_size: 4096,
            mode: 2,
            nice_len: 64,
            mf: 0x14,
            depth: 0,
        }
    }
}

fn make_opts(o: &EncOpts) -> lzma_options_lzma {
    let mut opts: lzma_options_lzma = unsafe { std::mem::zeroed() };
    unsafe {
        lzma_lzma_preset(&mut opts, 6);
    }
    opts.dict_size = o.dict_size;
    opts.lc = o.lc;
    opts.lp = o.lp;
    opts.pb = o.pb;
    opts.mode = o.mode;
    opts.nice_len = o.nice_len;
    opts.mf = o.mf;
    opts.depth = o.depth;
    opts.preset_dict = std::ptr::null();
    opts.preset_dict_size = 0;
    opts
}

/// Drive a coder over `input`; `actions` lists (end offset, action to use for
/// the bytes up to that offset). Returns (ret code, output, total_in).
fn drive(strm: &mut lzma_stream, input: &[u8], segments: &[(usize, c_int)], cap: usize) -> (c_int, Vec<u8>, u64) {
    let mut out: Vec<u8> = Vec::new();
    let mut buf = vec![0u8; 1 << 16];
    let mut start = 0usize;
    let mut ret = LZMA_OK;
    for &(end, action) in segments {
        strm.next_in = input[start..end].as_ptr();
        strm.avail_in = end - start;
        loop {
            strm.next_out = buf.as_mut_ptr();
            strm.avail_out = buf.len();
            ret = unsafe { lzma_code(strm, action) };
            let n = buf.len() - strm.avail_out;
            out.extend_from_slice(&buf[..n]);
            if out.len() > cap {
                return (LZMA_MEM_ERROR, out, strm.total_in);
            }
            if ret != LZMA_OK {
                break;
            }
            if action == LZMA_RUN && strm.avail_in == 0 && strm.avail_out != 0 {
                break;
            }
        }
        if ret == LZMA_STREAM_END && action != LZMA_FINISH {
            // flush finished; continue with next segment
            ret = LZMA_OK;
        } else if ret != LZMA_OK {
            break;
        }
        start = end;
    }
    (ret, out, strm.total_in)
}

pub struct Decoded {
    pub ret: c_int,
    pub out: Vec<u8>,
    pub total_in: u64,
}

impl Decoded {
    pub fn ok(&self) -> bool {
        self.ret == LZMA_STREAM_END
    }
}

const CAP: usize = 1 << 30;

/// .lzma (LZMA_alone) encoder.
pub fn alone_encode(data: &[u8], o: &EncOpts) -> Option<Vec<u8>> {
    let opts = make_opts(o);
    let mut strm = lzma_stream::zeroed();
    let r = unsafe { lzma_alone_encoder(&mut strm, &opts) };
    if r != LZMA_OK {
        return None;
    }
    let (ret, out, _) = drive(&mut strm, data, &[(data.len(), LZMA_FINISH)], CAP);
    unsafe { lzma_end(&mut strm) };
    if ret == LZMA_STREAM_END {
        Some(out)
    } else {
        None
    }
}

pub fn alone_decode(data: &[u8]) -> Decoded {
    let mut strm = lzma_stream::zeroed();
    let r = unsafe { lzma_alone_decoder(&mut strm, u64::MAX) };
    if r != LZMA_OK {
        return Decoded {
            ret: r,
            out: vec![],
            total_in: 0,
        };
    }
    let (ret, out, total_in) = drive(&mut strm, data, &[(data.len(), LZMA_FINISH)], CAP);
    unsafe { lzma_end(&mut strm) };
    Decoded { ret, out, total_in }
}

/// Raw LZMA2 encoder; `flush_at` = input offsets after which a SYNC_FLUSH is
/// issued (starts a new LZMA2 chunk).
pub fn lzma2_raw_encode(data: &[u8], o: &EncOpts, flush_at: &[usize]) -> Option<Vec<u8>> {
    let mut opts = make_opts(o);
    let filters = [
        lzma_filter {
            id: FILTER_LZMA2,
            options: &mut opts as *mut _ as *mut c_void,
        },
        lzma_filter {
            id: VLI_UNKNOWN,
            options: std::ptr::null_mut(),
        },
    ];
    let mut strm = lzma_stream::zeroed();
    let r = unsafe { lzma_raw_encoder(&mut strm, filters.as_ptr()) };
    if r != LZMA_OK {
        return None;
    }
    let mut segs: Vec<(usize, c_int)> = flush_at
        .iter()
        .filter(|&&p| p > 0 && p < data.len())
        .map(|&p| (p, LZMA_SYNC_FLUSH))
        .collect();
    segs.sort();
    segs.dedup();
    segs.push((data.len(), LZMA_FINISH));
    let (ret, out, _) = drive(&mut strm, data, &segs, CAP);
    unsafe { lzma_end(&mut strm) };
    if ret == LZMA_STREAM_END {
        Some(out)
    } else {
        None
    }
}

pub fn lzma2_raw_decode(data: &[u8], dict_size: u32) -> Decoded {
    let mut opts = make_opts(&EncOpts {
        dict_size,
        ..Default::default()
    });
    let filters = [
        lzma_filter {
            id: FILTER_LZMA2,
            options: &mut opts as *mut _ as *mut c_void,
        },
        lzma_filter {
            id: VLI_UNKNOWN,
            options: std::ptr::null_mut(),
        },
    ];
    let mut strm = lzma_stream::zeroed();
    let r = unsafe { lzma_raw_decoder(&mut strm, filters.as_ptr()) };
    if r != LZMA_OK {
        return Decoded {
            ret: r,
            out: vec![],
            total_in: 0,
        };
    }
    let (ret, out, total_in) = drive(&mut strm, data, &[(data.len(), LZMA_FINISH)], CAP);
    unsafe { lzma_end(&mut strm) };
    Decoded { ret, out, total_in }
}

/// Pre-filter placed before LZMA2 in an .xz filter chain.
#[derive(Clone, Copy, Debug, PartialEq, Eq)]
pub enum PreFilter {
    None,
    Delta(u32),
    Bcj(u64),
}

/// .xz encoder. `full_flush_at`: offsets after which a new block is started.
pub fn xz_encode(
    data: &[u8],
    o: &EncOpts,
    check: c_int,
    pre: PreFilter,
    full_flush_at: &[usize],
) -> Option<Vec<u8>> {
    let mut opts = make_opts(o);
    let mut delta: lzma_options_delta = unsafe { std::mem::zeroed() };
    let mut filters: Vec<lzma_filter> = Vec::new();
    match pre {
        PreFilter::None => {}
        PreFilter::Delta(d) => {
            delta.type_ = 0;
            delta.dist = d;
            filters.push(lzma_filter {
                id: FILTER_DELTA,
                options: &mut delta as *mut _ as *mut c_void,
            });
        }
        PreFilter::Bcj(id) => filters.push(lzma_filter {
            id,
            options: std::ptr::null_mut(),
        }),
    }
    filters.push(lzma_filter {
        id: FILTER_LZMA2,
        options: &mut opts as *mut _ as *mut c_void,
    });
    filters.push(lzma_filter {
        id: VLI_UNKNOWN,
        options: std::ptr::null_mut(),
    });
    let mut strm = lzma_stream::zeroed();
    let r = unsafe { lzma_stream_encoder(&mut strm, filters.as_ptr(), check) };
    if r != LZMA_OK {
        return None;
    }
    let mut segs: Vec<(usize, c_int)> = full_flush_at
        .iter()
        .filter(|&&p| p > 0 && p < data.len())
        .map(|&p| (p, LZMA_FULL_FLUSH))
        .collect();
    segs.sort();
    segs.dedup();
    segs.push((data.len(), LZMA_FINISH));
    let (ret, out, _) = drive(&mut strm, data, &segs, CAP);
    unsafe { lzma_end(&mut strm) };
    if ret == LZMA_STREAM_END {
        Some(out)
    } else {
        None
    }
}

/// .xz decoder. `concatenated`: accept several streams and stream padding.
pub fn xz_decode(data: &[u8], concatenated: bool) -> Decoded {
    let mut strm = lzma_stream::zeroed();
    let flags = TELL_UNSUPPORTED_CHECK | if concatenated { CONCATENATED } else { 0 };
    let r = unsafe { lzma_stream_decoder(&mut strm, u64::MAX, flags) };
    if r != LZMA_OK {
        return Decoded {
            ret: r,
            out: vec![],
            total_in: 0,
        };
    }
    let (ret, out, total_in) = drive(&mut strm, data, &[(data.len(), LZMA_FINISH)], CAP);
    unsafe { lzma_end(&mut strm) };
    Decoded { ret, out, total_in }
}

/// Like `xz_decode` but keeps going after LZMA_UNSUPPORTED_CHECK (liblzma
/// then decodes without verifying the check).
pub fn xz_decode_ignore_check(data: &[u8]) -> Decoded {
    let mut strm = lzma_stream::zeroed();
    let r = unsafe { lzma_stream_decoder(&mut strm, u64::MAX, 0) };
    if r != LZMA_OK {
        return Decoded {
            ret: r,
            out: vec![],
            total_in: 0,
        };
    }
    let (ret, out, total_in) = drive(&mut strm, data, &[(data.len(), LZMA_FINISH)], CAP);
    unsafe { lzma_end(&mut strm) };
    Decoded { ret, out, total_in }
}

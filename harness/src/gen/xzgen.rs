//! .xz file generator (structured description -> XzSpec).

use super::l2gen::{gen_chunks, L2Params};
use super::prog::structured_data;
use crate::refmodel::lzma2;
use crate::refmodel::xz::{self, BlockOpts, BlockSpec, XzSpec};
use crate::util::Rng;

#[derive(Clone, Debug)]
pub struct XzGenParams {
    pub max_blocks: usize,
    pub checks: Vec<u8>,
    /// keep everything small (for exhaustive per-file enumeration)
    pub small: bool,
    /// allow big header padding
    pub big_headers: bool,
}

impl XzGenParams {
    pub fn small() -> Self {
        XzGenParams {
            max_blocks: 3,
            checks: vec![0, 1, 4],
            small: true,
            big_headers: false,
        }
    }
    pub fn standard(max_blocks: usize) -> Self {
        XzGenParams {
            max_blocks,
            checks: vec![0, 1, 4],
            small: false,
            big_headers: true,
        }
    }
}

/// One LZMA2 payload + its plaintext, from the reference writer or liblzma.
pub fn gen_payload(rng: &mut Rng, small: bool) -> (Vec<u8>, Vec<u8>, String) {
    // an LZMA2 stream without any chunk (just the end byte): an empty block
    if rng.chance(1, 40) {
        NEED_DICT.with(|n| n.set(0));
        return (vec![0], vec![], "empty-lzma2".to_string());
    }
    #[cfg(not(miri))]
    if !small && rng.chance(1, 4) {
        let n = rng.range(1, 40_000) as usize;
        let plain = structured_data(rng, n);
        let p = super::l2gen::random_props_l2(rng);
        let eo = crate::liblzma::EncOpts {
            lc: p.lc,
            lp: p.lp,
            pb: p.pb,
            dict_size: 1 << 16,
            ..Default::default()
        };
        let fl: Vec<usize> = (0..rng.below(3)).map(|_| rng.usize_below(n)).collect();
        if let Some(enc) = crate::liblzma::lzma2_raw_encode(&plain, &eo, &fl) {
            NEED_DICT.with(|d| d.set((n as u64).min(1 << 16)));
            return (enc, plain, format!("liblzma-lzma2[{}]", n));
        }
    }
    loop {
        let nch = rng.range(1, if small { 2 } else { 6 }) as usize;
        let ms = if small { rng.range(1, 12) as usize } else { *rng.pick(&[10usize, 100, 600]) };
        let mut p = L2Params::standard(nch, ms);
        if small {
            p.w = [1, 1, 4, 1, 1, 2];
        } else if rng.chance(1, 5) {
            // capped distances, long copies, no dictionary reset after the first chunk: the block's
            // output is many times the dictionary it has to announce
            p.max_dist = *rng.pick(&[4096u64, 6144, 8192]);
            p.long_bias = true;
            p.w = [0, 3, 10, 3, 3, 0];
            p.n_chunks = rng.range(3, 10) as usize;
            p.max_syms = 200;
        }
        let mut chunks = gen_chunks(rng, &p);
        if small {
            // keep raw chunks short too
            for c in chunks.iter_mut() {
                if let lzma2::Chunk::Raw { data, .. } = c {
                    data.truncate(1 + (data.len() % 9));
                }
            }
        }
        if let Ok(w) = lzma2::write(&chunks) {
            let d = chunks.iter().map(|c| c.short()).collect::<Vec<_>>().join(" ");
            NEED_DICT.with(|n| n.set(w.need_dict));
            return (w.bytes, w.output, d);
        }
    }
}

thread_local! {
    /// largest copy distance of the payload `gen_payload` returned last (on this thread)
    pub static NEED_DICT: std::cell::Cell<u64> = const { std::cell::Cell::new(0) };
}

pub fn gen_xz(rng: &mut Rng, p: &XzGenParams) -> (XzSpec, String) {
    let check = *rng.pick(&p.checks);
    let nb = match rng.below(8) {
        0 => 0,
        1 | 2 | 3 => 1,
        4 | 5 => 2.min(p.max_blocks),
        _ if p.max_blocks > 4 => rng.range(4, p.max_blocks as u64) as usize,
        _ => rng.range(0, p.max_blocks as u64) as usize,
    };
    let mut blocks = Vec::new();
    let mut descs = Vec::new();
    for _ in 0..nb {
        let (data, plain, d) = gen_payload(rng, p.small);
        let bo = BlockOpts {
            with_packed: rng.chance(1, 2),
            with_unpacked: rng.chance(1, 2),
            extra_header_words: if p.big_headers && rng.chance(1, 6) {
                *rng.pick(&[1usize, 2, 7, 100, 250, 300])
            } else if rng.chance(1, 4) {
                1
            } else {
                0
            },
            // any dictionary that covers the largest distance used is legal - also one far
            // smaller than the block's output; a third of the blocks announce the smallest
            dict_prop: {
                let lo = xz::lzma2_dict_prop_for(NEED_DICT.with(|n| n.get()).max(1));
                if rng.chance(1, 3) { lo } else { rng.range(lo as u64, 40) as u8 }
            },
        };
        descs.push(format!(
            "block[{}{}hdrpad+{} {} -> {}B]",
            if bo.with_packed { "P" } else { "" },
            if bo.with_unpacked { "U" } else { "" },
            bo.extra_header_words,
            d,
            plain.len()
        ));
        blocks.push(BlockSpec::new(data, plain, check, &bo));
    }
    let spec = XzSpec::new(check, blocks);
    let desc = format!("check {} blocks {}: {}", check, nb, descs.join(" "));
    (spec, desc)
}

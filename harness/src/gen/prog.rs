//! Symbol-program generators.

use crate::refmodel::program::{Interp, Sym};
use crate::util::Rng;

#[derive(Clone, Copy, Debug, PartialEq, Eq)]
pub enum LitMode {
    Random,
    /// small alphabet
    LowEntropy,
    /// mostly the byte at rep0 distance with a few bits changed (exercises
    /// the matched-literal coder's partial-match paths)
    NearMatch,
    Mixed,
}

#[derive(Clone, Debug)]
pub struct ProgParams {
    pub n_syms: usize,
    pub max_out: usize,
    /// largest distance allowed (the dictionary size in effect)
    pub max_dist: u64,
    /// base weights for Lit, Match, ShortRep, Rep0..Rep3
    pub w: [u64; 7],
    pub lit_mode: LitMode,
    /// prefer long copies (to push output size up)
    pub long_bias: bool,
    /// steer kind choice towards rarely hit (state x kind) cells
    pub steer: bool,
}

impl ProgParams {
    pub fn standard(n_syms: usize, max_dist: u64) -> Self {
        ProgParams {
            n_syms,
            max_out: usize::MAX,
            max_dist,
            w: [30, 20, 8, 8, 6, 6, 6],
            lit_mode: LitMode::Mixed,
            long_bias: false,
            steer: true,
        }
    }
}

pub const LEN_EDGES: [u32; 8] = [2, 3, 9, 10, 17, 18, 19, 273];

fn next_state(s: usize, kind: usize) -> usize {
    match kind {
        0 => {
            if s < 4 {
                0
            } else if s < 10 {
                s - 3
            } else {
                s - 6
            }
        }
        1 => {
            if s < 7 {
                7
            } else {
                10
            }
        }
        2 => {
            if s < 7 {
                9
            } else {
                11
            }
        }
        _ => {
            if s < 7 {
                8
            } else {
                11
            }
        }
    }
}

pub fn pick_len(rng: &mut Rng, long_bias: bool) -> u32 {
    if long_bias && rng.chance(3, 4) {
        return if rng.chance(1, 2) { 273 } else { rng.range(100, 273) as u32 };
    }
    match rng.below(10) {
        0..=2 => *rng.pick(&LEN_EDGES),
        3..=5 => rng.range(2, 9) as u32,
        6..=7 => rng.range(10, 17) as u32,
        _ => rng.range(18, 273) as u32,
    }
}

/// Range of (distance-1) values covered by a distance slot.
pub fn slot_range(slot: u32) -> (u64, u64) {
    if slot < 4 {
        return (slot as u64, slot as u64);
    }
    let footer = (slot >> 1) - 1;
    let base = ((2 | (slot & 1)) as u64) << footer;
    (base, base + (1u64 << footer) - 1)
}

/// Pick a distance in 1..=maxd.
pub fn pick_dist(rng: &mut Rng, maxd: u64, dict: u64) -> u64 {
    debug_assert!(maxd >= 1);
    match rng.below(12) {
        0 => 1,
        1 => maxd,
        2 => {
            if dict <= maxd {
                dict
            } else {
                maxd
            }
        }
        3 => maxd - rng.below(maxd.min(4)),
        4 | 5 => 1 + rng.below(maxd.min(16)),
        6 => 1 + rng.below(maxd),
        _ => {
            // uniform over slots, then uniform inside the slot
            let max_slot = crate::refmodel::lzma::dist_slot((maxd - 1) as u32);
            let slot = rng.range(0, max_slot as u64) as u32;
            let (lo, hi) = slot_range(slot);
            let hi = hi.min(maxd - 1);
            let d = if rng.chance(1, 4) {
                if rng.chance(1, 2) {
                    lo
                } else {
                    hi
                }
            } else {
                rng.range(lo, hi)
            };
            d + 1
        }
    }
}

pub struct ProgGen {
    pub state: usize,
    /// hits per (state, kind) accumulated by this generator
    pub cells: [[u32; 7]; 12],
}

impl Default for ProgGen {
    fn default() -> Self {
        Self::new()
    }
}

impl ProgGen {
    pub fn new() -> Self {
        ProgGen {
            state: 0,
            cells: [[0; 7]; 12],
        }
    }

    fn pick_lit(&self, rng: &mut Rng, mode: LitMode, it: &Interp) -> u8 {
        let mode = if mode == LitMode::Mixed {
            *rng.pick(&[LitMode::Random, LitMode::LowEntropy, LitMode::NearMatch, LitMode::NearMatch])
        } else {
            mode
        };
        match mode {
            LitMode::Random | LitMode::Mixed => rng.byte(),
            LitMode::LowEntropy => *rng.pick(b"abcab \x00\xff"),
            LitMode::NearMatch => {
                let d = it.reps[0] as usize + 1;
                if d <= it.hist.len() {
                    let mb = it.hist[it.hist.len() - d];
                    match rng.below(4) {
                        0 => mb,
                        1 => mb ^ (1 << rng.below(8)),
                        2 => mb ^ (rng.byte() & 0x0F),
                        _ => mb ^ 0x80,
                    }
                } else {
                    rng.byte()
                }
            }
        }
    }

    /// Generate up to `p.n_syms` valid symbols continuing from `it` (which is
    /// advanced). Never emits Eos.
    pub fn generate(&mut self, rng: &mut Rng, p: &ProgParams, it: &mut Interp) -> Vec<Sym> {
        let mut prog = Vec::with_capacity(p.n_syms.min(4096));
        let start_out = it.hist.len();
        while prog.len() < p.n_syms && it.hist.len() - start_out < p.max_out {
            let n = it.hist.len() as u64;
            let maxd = n.min(p.max_dist);
            let mut w = p.w;
            if maxd == 0 {
                w = [1, 0, 0, 0, 0, 0, 0];
            } else {
                for i in 0..4 {
                    let d = it.reps[i] as u64 + 1;
                    if d > maxd {
                        w[3 + i] = 0;
                        if i == 0 {
                            w[2] = 0;
                        }
                    }
                }
            }
            if p.steer {
                for k in 0..7 {
                    if w[k] > 0 {
                        let hits = self.cells[self.state][k] as u64;
                        w[k] = w[k] * 4 / (1 + hits.min(3)) + 1;
                    }
                }
            }
            let kind = rng.weighted(&w);
            let room = (p.max_out - (it.hist.len() - start_out)).min(273) as u32;
            let s = match kind {
                0 => Sym::Lit(self.pick_lit(rng, p.lit_mode, it)),
                1 => {
                    let len = pick_len(rng, p.long_bias).min(room.max(2));
                    // now and then a NEW match that repeats a distance already held in the
                    // rep history (no real encoder does that; it makes rep entries equal)
                    let dup = it.reps[rng.usize_below(4)] as u64 + 1;
                    let dist = if rng.chance(1, 12) && dup <= maxd { dup } else { pick_dist(rng, maxd, p.max_dist) };
                    Sym::Match { dist: dist as u32, len }
                }
                2 => Sym::ShortRep,
                k => Sym::Rep {
                    idx: (k - 3) as u8,
                    len: pick_len(rng, p.long_bias).min(room.max(2)),
                },
            };
            let ok = it.step(&s);
            debug_assert!(ok);
            self.cells[self.state][kind] += 1;
            self.state = next_state(self.state, kind.min(3));
            prog.push(s);
        }
        prog
    }
}

/// Shortest symbol paths from state 0 to each automaton state, as kinds
/// (0 lit, 1 match, 2 shortrep, 3 rep).
pub const STATE_PATHS: [&[usize]; 12] = [
    &[],
    &[1, 0, 0],
    &[3, 0, 0],
    &[2, 0, 0],
    &[1, 0],
    &[3, 0],
    &[2, 0],
    &[1],
    &[3],
    &[2],
    &[1, 1],
    &[1, 3],
];

/// Enumerated corner programs: for each automaton state and each symbol kind
/// (7), reach the state by the shortest path, apply the kind with the given
/// length, then a short tail. `variant` picks lengths / distances.
pub fn corner_program(state: usize, kind: usize, variant: usize) -> Vec<Sym> {
    let lens = [2u32, 9, 10, 17, 18, 273, 5, 100];
    let len = lens[variant % lens.len()];
    let mut prog: Vec<Sym> = b"abcdefgh".iter().map(|&b| Sym::Lit(b)).collect();
    // make the four reps distinct so that a wrong rotation shows
    prog.push(Sym::Match { dist: 8, len: 2 });
    prog.push(Sym::Match { dist: 5, len: 3 });
    prog.push(Sym::Match { dist: 3, len: 2 });
    prog.push(Sym::Match { dist: 2, len: 2 });
    prog.push(Sym::Lit(b'x'));
    prog.push(Sym::Lit(b'y'));
    prog.push(Sym::Lit(b'z'));
    // now state 0 again (three literals after a match: 7 -> 4 -> 1 -> 0)
    for (i, &k) in STATE_PATHS[state].iter().enumerate() {
        prog.push(match k {
            0 => Sym::Lit(b'p' + (i as u8)),
            1 => Sym::Match {
                dist: 4 + i as u32 + (variant % 3) as u32,
                len: 3,
            },
            2 => Sym::ShortRep,
            _ => Sym::Rep {
                idx: ((variant + i) % 4) as u8,
                len: 4,
            },
        });
    }
    prog.push(match kind {
        0 => Sym::Lit(if variant % 2 == 0 { b'Q' } else { b'a' }),
        1 => Sym::Match {
            dist: [1u32, 2, 7, 11, 13][variant % 5],
            len,
        },
        2 => Sym::ShortRep,
        k => Sym::Rep {
            idx: (k - 3) as u8,
            len,
        },
    });
    // tail: literals (incl. matched literal right after a copy) and a rep3 that
    // shows the LRU order
    prog.push(Sym::Lit(b'!'));
    prog.push(Sym::Rep { idx: 3, len: 2 });
    prog.push(Sym::Lit(b'?'));
    prog.push(Sym::Rep { idx: 2, len: 2 });
    prog.push(Sym::Rep { idx: 1, len: 2 });
    prog.push(Sym::ShortRep);
    prog.push(Sym::Lit(b'.'));
    prog
}

/// Structured plaintext for feeding real encoders (liblzma, the dumb encoder).
pub fn structured_data(rng: &mut Rng, len: usize) -> Vec<u8> {
    let mut v = Vec::with_capacity(len);
    let words: [&[u8]; 8] = [
        b"the ", b"quick ", b"brown ", b"fox ", b"\n", b"0123456789", b"aaaaaaaa", b"\x00\x00\x00\x01",
    ];
    while v.len() < len {
        match rng.below(6) {
            0 => {
                let n = rng.range(1, 40) as usize;
                let b = rng.byte();
                v.extend(std::iter::repeat(b).take(n));
            }
            1 => {
                let n = rng.range(1, 24) as usize;
                v.extend(rng.bytes(n));
            }
            2 if v.len() > 8 => {
                // repeat an earlier piece
                let d = rng.range(1, v.len().min(5000) as u64) as usize;
                let n = rng.range(2, 300) as usize;
                for _ in 0..n {
                    let b = v[v.len() - d];
                    v.push(b);
                }
            }
            _ => v.extend_from_slice(words[rng.usize_below(words.len())]),
        }
    }
    v.truncate(len);
    v
}

/// A valid program (lc=lp=pb=0) ending in one symbol that costs close to the
/// format's maximum number of input bytes: every adaptive probability on that
/// symbol's path is first driven to its floor by ~150 codings of the opposite
/// decision. With distance slot 31 the final match costs about 17.7 bytes; a
/// higher `slot` (odd, <= 47) needs a history of more than 2^(slot/2+1) bytes.
pub fn floor_program(rng: &mut Rng, slot: u32) -> Vec<Sym> {
    use crate::refmodel::lzma::dist_slot;
    let reps = 150usize;
    let mut it = Interp::new();
    let mut prog: Vec<Sym> = Vec::new();
    let push = |s: Sym, it: &mut Interp, prog: &mut Vec<Sym>| {
        let ok = it.step(&s);
        debug_assert!(ok);
        prog.push(s);
    };
    // history large enough for the target slot and for every "opposite" slot used to
    // train the distance-slot tree (same prefix, opposite bit, zeros below)
    let need = {
        let mut m = slot_range(slot).0 + 2;
        for i in 0..6u32 {
            let bit = (slot >> (5 - i)) & 1;
            let prefix = slot >> (6 - i) << (6 - i);
            let opp = prefix | ((bit ^ 1) << (5 - i));
            m = m.max(slot_range(opp).0 + 2);
        }
        m as usize + 4096
    };
    for _ in 0..64 {
        push(Sym::Lit(rng.byte()), &mut it, &mut prog);
    }
    let mut k = 0;
    while it.hist.len() < need {
        if k < 8 || k % 97 == 0 {
            let d = rng.range(1, it.hist.len().min(64) as u64) as u32;
            push(Sym::Match { dist: d, len: 273 }, &mut it, &mut prog);
        } else {
            push(Sym::Rep { idx: 0, len: 273 }, &mut it, &mut prog);
        }
        k += 1;
    }
    // A: length coder high tree towards "not 255", choice/choice2 towards 1
    // (deepest tree node first: a later, shallower round leaves it untouched)
    for k in (0..8u32).rev() {
        let v = (0xFFu32 << (8 - k)) & 0xFF;
        for _ in 0..reps {
            push(Sym::Match { dist: 1, len: 18 + v }, &mut it, &mut prog);
        }
    }
    // A2: choice2 towards 0
    for _ in 0..reps + 50 {
        push(Sym::Match { dist: 1, len: 10 }, &mut it, &mut prog);
    }
    // B: distance slot tree (len_state 3) against the target's path; len 5 also
    // drives `choice` towards 0; align tree against 0b1111
    let mut group = 0usize;
    for i in (0..6u32).rev() {
        let bit = (slot >> (5 - i)) & 1;
        // same prefix, opposite bit, zeros below
        let prefix = slot >> (6 - i) << (6 - i);
        let opp = prefix | ((bit ^ 1) << (5 - i));
        let (lo, hi) = slot_range(opp);
        if lo + 1 > it.hist.len() as u64 {
            continue; // not reachable with this history: that bit stays cheap
        }
        for _ in 0..reps {
            let mut d = lo;
            if opp >= 14 {
                // choose align bits (low 4 bits of the reduced distance)
                // reverse tree: bit 0 is the root; deepest (bit 3) first
                let a: u64 = match group.min(3) {
                    0 => 0b0111,
                    1 => 0b1011,
                    2 => 0b1101,
                    _ => 0b1110,
                };
                d = (lo & !0xF) | a;
                if d > hi || d + 1 > it.hist.len() as u64 {
                    d = lo;
                }
            }
            debug_assert_eq!(dist_slot(d as u32), opp);
            push(Sym::Match { dist: d as u32 + 1, len: 5 }, &mut it, &mut prog);
        }
        if opp >= 14 {
            group += 1;
        }
    }
    // some literals to return to state 0
    for _ in 0..4 {
        push(Sym::Lit(0x55), &mut it, &mut prog);
    }
    // C: is_rep[0] towards "rep": (rep0, lit, lit, lit) cycles
    for _ in 0..reps {
        push(Sym::Rep { idx: 0, len: 2 }, &mut it, &mut prog);
        for _ in 0..3 {
            push(Sym::Lit(0x55), &mut it, &mut prog);
        }
    }
    // D: is_match[0] towards "literal"
    for _ in 0..reps + 80 {
        push(Sym::Lit(0x55), &mut it, &mut prog);
    }
    // E: the expensive symbol: from state 0, new match, len 273, target slot,
    // all direct bits set, align 0b1111
    let (lo, hi) = slot_range(slot);
    let d = hi.min(it.hist.len() as u64 - 1).max(lo);
    push(Sym::Match { dist: d as u32 + 1, len: 273 }, &mut it, &mut prog);
    for _ in 0..3 {
        push(Sym::Lit(rng.byte()), &mut it, &mut prog);
    }
    prog
}

//! Reader and sink wrappers: fragmenting readers, counting, fault injection.

use crate::util::Rng;
use std::cell::RefCell;
use std::io::{self, BufRead, Read, Write};
use std::rc::Rc;

#[derive(Clone, Copy, Debug, PartialEq, Eq, Hash)]
pub enum ReaderKind {
    /// `&[u8]`
    Slice,
    /// `io::Cursor<&[u8]>`
    Cursor,
    /// `io::BufReader::with_capacity(cap, &[u8])`
    Buf(usize),
    /// randomised fill_buf windows (1..=k) and short reads
    Chaos { seed: u64, k: usize },
}

impl ReaderKind {
    pub fn name(&self) -> String {
        match self {
            ReaderKind::Slice => "slice".into(),
            ReaderKind::Cursor => "cursor".into(),
            ReaderKind::Buf(c) => format!("bufreader({})", c),
            ReaderKind::Chaos { seed, k } => format!("chaos(k={},seed={})", k, seed % 1000),
        }
    }
    pub fn class(&self) -> &'static str {
        match self {
            ReaderKind::Slice => "slice",
            ReaderKind::Cursor => "cursor",
            ReaderKind::Buf(1) => "buf1",
            ReaderKind::Buf(c) if *c < 8 => "buf2-7",
            ReaderKind::Buf(c) if *c < 64 => "buf8-63",
            ReaderKind::Buf(_) => "buf64+",
            ReaderKind::Chaos { .. } => "chaos",
        }
    }
    /// Deterministic pick from a selector (e.g. a hash of the input): mostly a slice, sometimes a
    /// Cursor, a small BufReader or a randomised short-read reader. For monitors whose subject is
    /// not the reader: the way the input arrives must not matter to them either.
    pub fn from_selector(sel: u64) -> ReaderKind {
        match sel % 8 {
            5 => ReaderKind::Cursor,
            6 => ReaderKind::Buf(1 + ((sel >> 3) % 7) as usize),
            7 => ReaderKind::Chaos { seed: sel, k: [1usize, 3, 16, 64][((sel >> 3) % 4) as usize] },
            _ => ReaderKind::Slice,
        }
    }
    pub fn random(rng: &mut Rng) -> ReaderKind {
        match rng.below(8) {
            0 => ReaderKind::Slice,
            1 => ReaderKind::Cursor,
            2 => ReaderKind::Buf(1),
            3 => ReaderKind::Buf(rng.range(2, 7) as usize),
            4 => ReaderKind::Buf(rng.range(8, 63) as usize),
            5 => ReaderKind::Buf(*rng.pick(&[64usize, 100, 4096, 8192])),
            _ => ReaderKind::Chaos {
                seed: rng.next(),
                k: *rng.pick(&[1usize, 2, 3, 5, 16, 64]),
            },
        }
    }
}

/// A `BufRead` over a slice whose `fill_buf` exposes a random 1..=k bytes and
/// whose `read` returns random short counts. Never returns empty before EOF.
pub struct ChaosReader<'a> {
    data: &'a [u8],
    pos: usize,
    win_end: usize,
    rng: Rng,
    k: usize,
}

impl<'a> ChaosReader<'a> {
    pub fn new(data: &'a [u8], seed: u64, k: usize) -> Self {
        ChaosReader {
            data,
            pos: 0,
            win_end: 0,
            rng: Rng::new(seed),
            k: k.max(1),
        }
    }
}

impl<'a> Read for ChaosReader<'a> {
    fn read(&mut self, buf: &mut [u8]) -> io::Result<usize> {
        let remaining = self.data.len() - self.pos;
        if remaining == 0 || buf.is_empty() {
            return Ok(0);
        }
        let want = self.rng.range(1, self.k as u64) as usize;
        let n = want.min(remaining).min(buf.len());
        buf[..n].copy_from_slice(&self.data[self.pos..self.pos + n]);
        self.pos += n;
        if self.win_end < self.pos {
            self.win_end = self.pos;
        }
        Ok(n)
    }
}

impl<'a> BufRead for ChaosReader<'a> {
    fn fill_buf(&mut self) -> io::Result<&[u8]> {
        if self.win_end <= self.pos && self.pos < self.data.len() {
            let want = self.rng.range(1, self.k as u64) as usize;
            self.win_end = (self.pos + want).min(self.data.len());
        }
        Ok(&self.data[self.pos..self.win_end.max(self.pos)])
    }
    fn consume(&mut self, amt: usize) {
        self.pos = (self.pos + amt).min(self.data.len());
    }
}

/// Counts logical consumption and call counts; can fail the k-th call.
pub struct Probe<R> {
    inner: R,
    pub st: Rc<RefCell<ReadStats>>,
}

#[derive(Clone, Debug, Default)]
pub struct ReadStats {
    pub consumed: usize,
    /// number of read()/fill_buf() calls so far
    pub calls: u64,
    /// fail (ErrorKind::Other) the call with this 1-based number
    pub fail_at: Option<u64>,
    /// return ErrorKind::Interrupted once at this 1-based call number
    pub interrupt_at: Option<u64>,
    pub faults_fired: u64,
    /// error kind of the injected failure (None = ErrorKind::Other)
    pub fail_kind: Option<io::ErrorKind>,
}

impl<R> Probe<R> {
    pub fn new(inner: R, st: Rc<RefCell<ReadStats>>) -> Self {
        Probe { inner, st }
    }
    fn gate(&mut self) -> io::Result<()> {
        let mut s = self.st.borrow_mut();
        s.calls += 1;
        if s.fail_at == Some(s.calls) {
            s.faults_fired += 1;
            return Err(io::Error::new(s.fail_kind.unwrap_or(io::ErrorKind::Other), "injected read fault"));
        }
        if s.interrupt_at == Some(s.calls) {
            s.faults_fired += 1;
            return Err(io::Error::new(io::ErrorKind::Interrupted, "injected EINTR"));
        }
        Ok(())
    }
}

impl<R: Read> Read for Probe<R> {
    fn read(&mut self, buf: &mut [u8]) -> io::Result<usize> {
        self.gate()?;
        let n = self.inner.read(buf)?;
        self.st.borrow_mut().consumed += n;
        Ok(n)
    }
}

impl<R: BufRead> BufRead for Probe<R> {
    fn fill_buf(&mut self) -> io::Result<&[u8]> {
        self.gate()?;
        self.inner.fill_buf()
    }
    fn consume(&mut self, amt: usize) {
        self.st.borrow_mut().consumed += amt;
        self.inner.consume(amt)
    }
}

/// Build a reader of the given kind over `data`, wrapped in a `Probe`.
pub fn make_reader<'a>(
    kind: ReaderKind,
    data: &'a [u8],
    st: Rc<RefCell<ReadStats>>,
) -> Box<dyn BufRead + 'a> {
    match kind {
        ReaderKind::Slice => Box::new(Probe::new(data, st)),
        ReaderKind::Cursor => Box::new(Probe::new(io::Cursor::new(data), st)),
        ReaderKind::Buf(cap) => Box::new(Probe::new(io::BufReader::with_capacity(cap, data), st)),
        ReaderKind::Chaos { seed, k } => Box::new(Probe::new(ChaosReader::new(data, seed, k), st)),
    }
}

/// A plain reader (for encoders' input): full / one byte at a time / random short reads.
pub struct ShortReader<'a> {
    data: &'a [u8],
    pos: usize,
    rng: Rng,
    /// 0 = give everything asked for
    max: usize,
}

impl<'a> ShortReader<'a> {
    pub fn new(data: &'a [u8], max: usize, seed: u64) -> Self {
        ShortReader {
            data,
            pos: 0,
            rng: Rng::new(seed),
            max,
        }
    }
}

impl<'a> Read for ShortReader<'a> {
    fn read(&mut self, buf: &mut [u8]) -> io::Result<usize> {
        let remaining = self.data.len() - self.pos;
        if remaining == 0 || buf.is_empty() {
            return Ok(0);
        }
        let mut n = remaining.min(buf.len());
        if self.max > 0 {
            n = n.min(self.rng.range(1, self.max as u64) as usize);
        }
        buf[..n].copy_from_slice(&self.data[self.pos..self.pos + n]);
        self.pos += n;
        Ok(n)
    }
}

/// A reader that fails with `ErrorKind::Interrupted` (the retryable kind) before handing out data,
/// at the first call and then at every `every`-th call, and otherwise gives short counts.
pub struct InterruptingReader<'a> {
    inner: ShortReader<'a>,
    calls: u64,
    every: u64,
    pending: bool,
}

impl<'a> InterruptingReader<'a> {
    pub fn new(data: &'a [u8], max: usize, seed: u64, every: u64) -> Self {
        InterruptingReader { inner: ShortReader::new(data, max, seed), calls: 0, every: every.max(2), pending: true }
    }
}

impl<'a> Read for InterruptingReader<'a> {
    fn read(&mut self, buf: &mut [u8]) -> io::Result<usize> {
        self.calls += 1;
        if self.pending || self.calls % self.every == 0 {
            self.pending = false;
            return Err(io::Error::new(io::ErrorKind::Interrupted, "interrupted, try again"));
        }
        self.inner.read(buf)
    }
}

// ---------------------------------------------------------------------------
// Sinks

#[derive(Clone, Debug, Default)]
pub struct SinkState {
    pub data: Vec<u8>,
    /// when false, only count + hash (for very large outputs)
    pub store: bool,
    pub len: u64,
    pub hash: u64,
    pub write_calls: u64,
    pub flush_calls: u64,
    /// bytes accepted since the last successful flush
    pub unflushed: u64,
    /// fail the write call with this 1-based number
    pub fail_write_at: Option<u64>,
    /// return Ok(0) (accept nothing, no error) at the write call with this 1-based number
    pub zero_at: Option<u64>,
    /// fail every flush
    pub fail_flush: bool,
    /// accept at most this many bytes per write call (0 = all)
    pub short: usize,
    /// random short writes when Some(seed state)
    pub short_rng: Option<u64>,
    /// refuse (error) once more than this many bytes were accepted
    pub cap: Option<u64>,
    pub faults_fired: u64,
    /// error kind of the injected write failure (None = ErrorKind::Other)
    pub fail_kind: Option<io::ErrorKind>,
    /// calls made after an error was returned by this sink
    pub calls_after_error: u64,
    pub errored: bool,
}

#[derive(Clone)]
pub struct SharedSink(pub Rc<RefCell<SinkState>>);

impl SharedSink {
    pub fn new() -> Self {
        SharedSink(Rc::new(RefCell::new(SinkState {
            store: true,
            hash: 0xcbf2_9ce4_8422_2325,
            ..Default::default()
        })))
    }
    /// A sink whose write-acceptance pattern is picked from `selector` (decoders must not care):
    /// mostly everything at once, sometimes 1 byte per call or random short counts. Only for
    /// outputs small enough (`expected_len`) that byte-wise writes stay cheap. Also: a retryable
    /// `Interrupted` once, alone or in between short writes (`write_all` retries it).
    pub fn varied(selector: u64, expected_len: usize) -> Self {
        let s = Self::new();
        if expected_len <= (1 << 18) {
            let k = 1 + (selector >> 8) % 4;
            let mut st = s.0.borrow_mut();
            match selector % 9 {
                3 => st.short = 1,
                5 => st.short_rng = Some(selector | 1),
                // a retryable interruption, once, at one of the first writes
                1 => {
                    st.fail_write_at = Some(k);
                    st.fail_kind = Some(io::ErrorKind::Interrupted);
                }
                // a few bytes per write AND one retryable interruption in between
                7 => {
                    st.short = 3 + (selector >> 12) as usize % 7;
                    st.fail_write_at = Some(1 + k);
                    st.fail_kind = Some(io::ErrorKind::Interrupted);
                }
                _ => {}
            }
        }
        s
    }
    pub fn counting_only() -> Self {
        let s = Self::new();
        s.0.borrow_mut().store = false;
        s
    }
    pub fn with<F: FnOnce(&mut SinkState)>(self, f: F) -> Self {
        f(&mut self.0.borrow_mut());
        self
    }
    pub fn bytes(&self) -> Vec<u8> {
        self.0.borrow().data.clone()
    }
    pub fn len(&self) -> u64 {
        self.0.borrow().len
    }
}

impl Default for SharedSink {
    fn default() -> Self {
        Self::new()
    }
}

impl std::fmt::Debug for SharedSink {
    fn fmt(&self, f: &mut std::fmt::Formatter<'_>) -> std::fmt::Result {
        write!(f, "SharedSink(len={})", self.0.borrow().len)
    }
}

impl Write for SharedSink {
    fn write(&mut self, buf: &[u8]) -> io::Result<usize> {
        let mut s = self.0.borrow_mut();
        if s.errored {
            s.calls_after_error += 1;
        }
        s.write_calls += 1;
        if s.fail_write_at == Some(s.write_calls) {
            s.faults_fired += 1;
            s.errored = true;
            return Err(io::Error::new(s.fail_kind.unwrap_or(io::ErrorKind::Other), "injected write fault"));
        }
        if s.zero_at == Some(s.write_calls) && !buf.is_empty() {
            s.faults_fired += 1;
            return Ok(0);
        }
        let mut n = buf.len();
        if s.short > 0 {
            n = n.min(s.short);
        }
        if let Some(ref mut st) = s.short_rng {
            if n > 1 {
                let r = crate::util::splitmix(st);
                n = 1 + (r % n as u64) as usize;
            }
        }
        if let Some(cap) = s.cap {
            if s.len + n as u64 > cap {
                s.faults_fired += 1;
                s.errored = true;
                return Err(io::Error::new(io::ErrorKind::Other, "sink capacity reached"));
            }
        }
        if s.store {
            s.data.extend_from_slice(&buf[..n]);
        }
        let mut h = s.hash;
        for &b in &buf[..n] {
            h ^= b as u64;
            h = h.wrapping_mul(0x0000_0100_0000_01B3);
        }
        s.hash = h;
        s.len += n as u64;
        s.unflushed += n as u64;
        Ok(n)
    }
    fn flush(&mut self) -> io::Result<()> {
        let mut s = self.0.borrow_mut();
        if s.errored {
            s.calls_after_error += 1;
        }
        s.flush_calls += 1;
        if s.fail_flush {
            s.faults_fired += 1;
            s.errored = true;
            return Err(io::Error::new(io::ErrorKind::Other, "injected flush fault"));
        }
        s.unflushed = 0;
        Ok(())
    }
}

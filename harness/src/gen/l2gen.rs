//! LZMA2 chunk-sequence generator.

use super::prog::{LitMode, ProgGen, ProgParams};
use crate::refmodel::lzma::Props;
use crate::refmodel::lzma2::Chunk;
use crate::refmodel::program::{Interp, Sym};
use crate::util::Rng;

#[derive(Clone, Debug)]
pub struct L2Params {
    pub n_chunks: usize,
    pub max_syms: usize,
    /// probability weights for classes 0x01, 0x02, 0x80, 0xA0, 0xC0, 0xE0
    pub w: [u64; 6],
    /// allow 64 KiB raw chunks / long-match 2 MiB chunks occasionally
    pub extremes: bool,
    /// largest copy distance (u64::MAX: anything the history allows); with a cap the output can be
    /// many times larger than the dictionary a container needs to announce
    pub max_dist: u64,
    /// prefer long copies (large outputs from few symbols)
    pub long_bias: bool,
}

impl L2Params {
    pub fn standard(n_chunks: usize, max_syms: usize) -> Self {
        L2Params {
            n_chunks,
            max_syms,
            w: [2, 4, 6, 3, 3, 2],
            extremes: false,
            max_dist: u64::MAX,
            long_bias: false,
        }
    }
}

pub fn random_props_l2(rng: &mut Rng) -> Props {
    loop {
        let lc = rng.below(5) as u32;
        let lp = rng.below(5) as u32;
        if lc + lp <= 4 {
            return Props::new(lc, lp, rng.below(5) as u32);
        }
    }
}

/// Generate a chunk sequence that liblzma and the SDK consider well-formed:
/// the first chunk resets the dictionary, the first LZMA chunk after a
/// dictionary reset carries properties, lc + lp <= 4.
pub fn gen_chunks(rng: &mut Rng, p: &L2Params) -> Vec<Chunk> {
    let mut chunks = Vec::new();
    let mut it = Interp::new();
    let mut pg = ProgGen::new();
    let mut props = Props::new(0, 0, 0);
    let mut need_props = true;
    let mut first = true;
    while chunks.len() < p.n_chunks {
        let mut w = p.w;
        if first {
            // must reset the dictionary
            w = [p.w[0].max(1), 0, 0, 0, 0, p.w[5].max(1)];
        } else if need_props {
            w[2] = 0;
            w[3] = 0;
        }
        let class = rng.weighted(&w);
        first = false;
        match class {
            0 | 1 => {
                let reset_dict = class == 0;
                let n = if p.extremes && rng.chance(1, 6) {
                    *rng.pick(&[65536usize, 65535, 1])
                } else if rng.chance(1, 5) {
                    1
                } else {
                    rng.range(1, 300) as usize
                };
                let data = if rng.chance(1, 2) {
                    rng.bytes(n)
                } else {
                    crate::gen::prog::structured_data(rng, n)
                };
                if reset_dict {
                    it.hist.clear();
                    need_props = true;
                }
                it.hist.extend_from_slice(&data);
                chunks.push(Chunk::Raw { reset_dict, data });
            }
            c => {
                let reset = (c - 2) as u8;
                if reset == 3 {
                    it.hist.clear();
                }
                if reset >= 2 {
                    props = random_props_l2(rng);
                    need_props = false;
                }
                if reset >= 1 {
                    it.reps = [0; 4];
                    pg.state = 0;
                }
                let long = p.extremes && rng.chance(1, 8);
                let n_syms = if long {
                    7800
                } else if rng.chance(1, 6) {
                    1
                } else {
                    rng.range(1, p.max_syms as u64) as usize
                };
                let mut pp = ProgParams::standard(n_syms, p.max_dist);
                pp.long_bias = long || p.long_bias;
                pp.max_out = if long { 1 << 21 } else { 1 << 20 };
                if long {
                    pp.w = [2, 20, 1, 10, 3, 3, 3];
                }
                let mut prog: Vec<Sym> = Vec::new();
                if reset == 0 && !it.hist.is_empty() && n_syms > 2 {
                    // make the first symbols depend on inherited state
                    let idx = rng.below(4) as u8;
                    if (it.reps[idx as usize] as usize) < it.hist.len() && (it.reps[idx as usize] as u64) < p.max_dist {
                        let s = Sym::Rep {
                            idx,
                            len: rng.range(2, 12) as u32,
                        };
                        it.step(&s);
                        pg.state = if pg.state < 7 { 8 } else { 11 };
                        prog.push(s);
                        pp.n_syms -= 1;
                    }
                    pp.lit_mode = LitMode::NearMatch;
                }
                prog.extend(pg.generate(rng, &pp, &mut it));
                if prog.is_empty() {
                    prog.push(Sym::Lit(rng.byte()));
                    it.step(&prog[0].clone());
                }
                chunks.push(Chunk::Lzma { reset, props, prog });
            }
        }
    }
    chunks
}

pub mod io;
pub mod prog;
pub mod l2gen;
pub mod xzgen;

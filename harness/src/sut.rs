//! Calls into lzma-rs (the system under test) with panic capture, event
//! observation, reader/sink instrumentation.

use crate::gen::io::{make_reader, ReadStats, ReaderKind, SharedSink};
use lzma_rs::decompress::raw::{Lzma2Decoder, LzmaDecoder, LzmaParams, LzmaProperties};
use lzma_rs::decompress::{Options, UnpackedSize};
use lzma_rs::verif::{self, Event};
use std::cell::RefCell;
use std::panic::{catch_unwind, AssertUnwindSafe};
use std::rc::Rc;

#[derive(Clone, Debug, PartialEq, Eq)]
pub enum Verdict {
    Ok,
    /// Display string of the error
    Err(String),
    /// (message, file:line)
    Panic(String, String),
    /// the observer's logical step budget was exceeded
    TickOverrun(u64),
}

impl Verdict {
    pub fn is_ok(&self) -> bool {
        matches!(self, Verdict::Ok)
    }
    pub fn is_err(&self) -> bool {
        matches!(self, Verdict::Err(_))
    }
    pub fn is_abnormal(&self) -> bool {
        matches!(self, Verdict::Panic(..) | Verdict::TickOverrun(_))
    }
    pub fn short(&self) -> String {
        match self {
            Verdict::Ok => "Ok".into(),
            Verdict::Err(e) => format!("Err({})", e),
            Verdict::Panic(m, l) => format!("PANIC({} @ {})", m, l),
            Verdict::TickOverrun(n) => format!("TICK-OVERRUN({})", n),
        }
    }
    /// coarse class of an error message (digits removed, truncated)
    pub fn class(&self) -> String {
        match self {
            Verdict::Ok => "ok".into(),
            Verdict::Err(e) => {
                let s: String = e
                    .chars()
                    .map(|c| if c.is_ascii_digit() { '#' } else { c })
                    .collect();
                let mut out = String::new();
                let mut prev = ' ';
                for c in s.chars() {
                    if !(c == '#' && prev == '#') {
                        out.push(c);
                    }
                    prev = c;
                }
                out.chars().take(60).collect()
            }
            Verdict::Panic(..) => "panic".into(),
            Verdict::TickOverrun(_) => "tick-overrun".into(),
        }
    }
}

struct TickOverrunPayload(u64);

thread_local! {
    static LAST_PANIC: RefCell<Option<(String, String)>> = const { RefCell::new(None) };
    static QUIET: std::cell::Cell<bool> = const { std::cell::Cell::new(false) };
}

/// Install the process-wide panic hook (once). Panics inside `guarded` calls
/// are recorded silently; others are printed as usual.
pub fn install_panic_hook() {
    let default = std::panic::take_hook();
    std::panic::set_hook(Box::new(move |info| {
        let quiet = QUIET.with(|q| q.get());
        let msg = if let Some(s) = info.payload().downcast_ref::<&str>() {
            s.to_string()
        } else if let Some(s) = info.payload().downcast_ref::<String>() {
            s.clone()
        } else if info.payload().downcast_ref::<TickOverrunPayload>().is_some() {
            "tick budget".to_string()
        } else {
            "<non-string panic>".to_string()
        };
        let loc = info
            .location()
            .map(|l| format!("{}:{}", l.file(), l.line()))
            .unwrap_or_default();
        if quiet {
            LAST_PANIC.with(|p| *p.borrow_mut() = Some((msg, loc)));
        } else {
            default(info);
        }
    }));
}

/// Run `f` catching panics; returns Err(verdict) for a panic.
pub fn guarded<T>(f: impl FnOnce() -> T) -> Result<T, Verdict> {
    let was = QUIET.with(|q| q.replace(true));
    LAST_PANIC.with(|p| *p.borrow_mut() = None);
    let r = catch_unwind(AssertUnwindSafe(f));
    QUIET.with(|q| q.set(was));
    match r {
        Ok(v) => Ok(v),
        Err(payload) => {
            if let Some(t) = payload.downcast_ref::<TickOverrunPayload>() {
                return Err(Verdict::TickOverrun(t.0));
            }
            let (m, l) = LAST_PANIC
                .with(|p| p.borrow_mut().take())
                .unwrap_or(("<unknown>".into(), String::new()));
            Err(Verdict::Panic(m, l))
        }
    }
}

// ---------------------------------------------------------------------------
// Observation of hook events

#[derive(Clone, Debug)]
pub struct Obs {
    pub ticks: u64,
    pub tick_budget: u64,
    /// when set (input length n): the step budget is also enforced as it goes,
    /// ticks <= 64 * (n + bytes announced by Sym events) + 4096. Every tick site is per symbol,
    /// per chunk / block / index record or per buffer refill, so a terminating decode stays far
    /// below this; a loop that stops making progress is cut off after a few thousand iterations
    /// instead of after the worst case the sink cap would allow
    pub tick_input_len: Option<u64>,
    pub sym_bytes: u64,
    pub tick_sites: [u64; 6],
    /// [state_before][kind] with kinds lit, match, shortrep, rep0..3, eos
    pub cells: [[u64; 8]; 12],
    /// len classes: 2-9, 10-17, 18-273 for matches+reps
    pub len_class: [u64; 3],
    /// exact edge lengths seen: 2, 9, 10, 17, 18, 273
    pub len_edges: [u64; 6],
    /// distance slots of new-distance matches
    pub slots: [u64; 64],
    pub syms: u64,
    pub last_sym: Option<(u8, u32, u64, u64)>,
    /// record the whole symbol stream (kind, rep_idx, len, dist, out_len)
    pub record_syms: bool,
    pub sym_log: Vec<(u8, u8, u32, u64, u64)>,
    /// circular window
    pub lz_copies: u64,
    pub src_straddle: u64,
    pub dst_straddle: u64,
    pub dist_eq_dict: u64,
    pub overlap_copies: u64,
    pub second_lap_copies: u64,
    pub win_max: usize,
    pub win_over_limit: u64,
    pub win_flushes: u64,
    pub win_flushed_bytes: u64,
    /// accumulating window
    pub accum_resets: u64,
    pub accum_copies: u64,
    pub accum_max_dist_ratio: u64,
    /// LZMA2 chunk classes parsed: 0x01,0x02,0x80,0xA0,0xC0,0xE0
    pub chunk_class: [u64; 6],
    pub chunk_trans: [[u64; 6]; 6],
    last_chunk: Option<usize>,
    pub chunk_max_unpacked: u64,
    pub chunk_max_packed: u64,
    /// range encoder
    pub rc_shifts: u64,
    pub rc_carries: u64,
    /// shifts with a carry pending while the byte under the carry is 0xFF
    pub rc_carry_onto_ff: u64,
    pub rc_max_cachesz: u32,
    /// when the harness knows pb: probability-context coverage as decoded
    pub pb: Option<u32>,
    /// is_match context: [state][pos_state]
    pub ctx_is_match: [[u32; 16]; 12],
    /// length coder context: [0 = match, 1 = rep][class low/mid/high][pos_state]
    pub ctx_len: [[[u32; 16]; 3]; 2],
    /// distance slot context: [len_state][slot]
    pub ctx_slot: [[u32; 64]; 4],
}

impl Default for Obs {
    fn default() -> Self {
        Obs {
            ticks: 0,
            tick_budget: u64::MAX,
            tick_input_len: None,
            sym_bytes: 0,
            tick_sites: [0; 6],
            cells: [[0; 8]; 12],
            len_class: [0; 3],
            len_edges: [0; 6],
            slots: [0; 64],
            syms: 0,
            last_sym: None,
            record_syms: false,
            sym_log: Vec::new(),
            lz_copies: 0,
            src_straddle: 0,
            dst_straddle: 0,
            dist_eq_dict: 0,
            overlap_copies: 0,
            second_lap_copies: 0,
            win_max: 0,
            win_over_limit: 0,
            win_flushes: 0,
            win_flushed_bytes: 0,
            accum_resets: 0,
            accum_copies: 0,
            accum_max_dist_ratio: 0,
            chunk_class: [0; 6],
            chunk_trans: [[0; 6]; 6],
            last_chunk: None,
            chunk_max_unpacked: 0,
            chunk_max_packed: 0,
            rc_shifts: 0,
            rc_carries: 0,
            rc_carry_onto_ff: 0,
            rc_max_cachesz: 0,
            pb: None,
            ctx_is_match: [[0; 16]; 12],
            ctx_len: [[[0; 16]; 3]; 2],
            ctx_slot: [[0; 64]; 4],
        }
    }
}

pub fn chunk_class_of(control: u8) -> usize {
    match control {
        1 => 0,
        2 => 1,
        c if c >= 0xE0 => 5,
        c if c >= 0xC0 => 4,
        c if c >= 0xA0 => 3,
        _ => 2,
    }
}

impl Obs {
    pub fn with_budget(budget: u64) -> Self {
        Obs {
            tick_budget: budget,
            ..Default::default()
        }
    }

    fn on(&mut self, ev: &Event) {
        match *ev {
            Event::Tick(site) => {
                self.ticks += 1;
                self.tick_sites[(site as usize).min(5)] += 1;
                if self.ticks > self.tick_budget {
                    std::panic::panic_any(TickOverrunPayload(self.ticks));
                }
                if let Some(n) = self.tick_input_len {
                    if self.ticks > 64u64.saturating_mul(n.saturating_add(self.sym_bytes)).saturating_add(4096) {
                        std::panic::panic_any(TickOverrunPayload(self.ticks));
                    }
                }
            }
            Event::Sym {
                kind,
                rep_idx,
                len,
                dist,
                state_before,
                out_len,
            } => {
                self.syms += 1;
                self.sym_bytes += len as u64;
                let k = match kind {
                    verif::SYM_LIT => 0,
                    verif::SYM_MATCH => 1,
                    verif::SYM_SHORTREP => 2,
                    verif::SYM_REP => 3 + (rep_idx as usize).min(3),
                    _ => 7,
                };
                self.cells[(state_before as usize).min(11)][k] += 1;
                if kind == verif::SYM_MATCH || kind == verif::SYM_REP {
                    let c = if len < 10 {
                        0
                    } else if len < 18 {
                        1
                    } else {
                        2
                    };
                    self.len_class[c] += 1;
                    if let Some(i) = [2u32, 9, 10, 17, 18, 273].iter().position(|&e| e == len) {
                        self.len_edges[i] += 1;
                    }
                }
                if kind == verif::SYM_MATCH {
                    let slot = crate::refmodel::lzma::dist_slot((dist - 1) as u32);
                    self.slots[slot as usize] += 1;
                }
                if let Some(pb) = self.pb {
                    let ps = (out_len & ((1u64 << pb) - 1)) as usize;
                    self.ctx_is_match[(state_before as usize).min(11)][ps] += 1;
                    if kind == verif::SYM_MATCH || kind == verif::SYM_REP || kind == verif::SYM_EOS {
                        let class = if len < 10 { 0 } else if len < 18 { 1 } else { 2 };
                        self.ctx_len[(kind == verif::SYM_REP) as usize][class][ps] += 1;
                    }
                    if kind == verif::SYM_MATCH {
                        let ls = (len.saturating_sub(2)).min(3) as usize;
                        let slot = crate::refmodel::lzma::dist_slot((dist - 1) as u32) as usize;
                        self.ctx_slot[ls][slot] += 1;
                    }
                }
                self.last_sym = Some((kind, len, dist, out_len));
                if self.record_syms {
                    self.sym_log.push((kind, rep_idx, len, dist, out_len));
                }
            }
            Event::LzCopy {
                len,
                dist,
                cursor,
                dict_size,
                total,
            } => {
                self.lz_copies += 1;
                if dict_size > 0 && dist <= dict_size && dist <= total {
                    let src = (dict_size + cursor - dist) % dict_size;
                    if src + len > dict_size {
                        self.src_straddle += 1;
                    }
                    if cursor + len > dict_size {
                        self.dst_straddle += 1;
                    }
                    if dist == dict_size {
                        self.dist_eq_dict += 1;
                    }
                    if dist < len {
                        self.overlap_copies += 1;
                    }
                    if total >= dict_size {
                        self.second_lap_copies += 1;
                    }
                }
            }
            Event::WinGrow { buf_len, memlimit } => {
                if buf_len > self.win_max {
                    self.win_max = buf_len;
                }
                if buf_len > memlimit {
                    self.win_over_limit += 1;
                }
            }
            Event::WinFlush { n } => {
                self.win_flushes += 1;
                self.win_flushed_bytes += n as u64;
            }
            Event::AccumReset { .. } => self.accum_resets += 1,
            Event::AccumCopy { .. } => self.accum_copies += 1,
            Event::Chunk {
                control,
                unpacked,
                packed,
            } => {
                let c = chunk_class_of(control);
                self.chunk_class[c] += 1;
                if let Some(p) = self.last_chunk {
                    self.chunk_trans[p][c] += 1;
                }
                self.last_chunk = Some(c);
                self.chunk_max_unpacked = self.chunk_max_unpacked.max(unpacked);
                self.chunk_max_packed = self.chunk_max_packed.max(packed);
            }
            Event::RcShift { cachesz, carry, low } => {
                self.rc_shifts += 1;
                if carry && (low as u32) >= 0xFF00_0000 {
                    self.rc_carry_onto_ff += 1;
                }
                if carry {
                    self.rc_carries += 1;
                }
                if cachesz > self.rc_max_cachesz {
                    self.rc_max_cachesz = cachesz;
                }
            }
        }
    }
}

pub type ObsRef = Rc<RefCell<Obs>>;

pub fn new_obs(budget: u64) -> ObsRef {
    Rc::new(RefCell::new(Obs::with_budget(budget)))
}

/// Run `f` with `obs` installed as this thread's observer, catching panics.
pub fn observed<T>(obs: &ObsRef, f: impl FnOnce() -> T) -> Result<T, Verdict> {
    let o = obs.clone();
    let prev = verif::set_observer(Some(Box::new(move |ev| o.borrow_mut().on(ev))));
    let r = guarded(f);
    verif::set_observer(prev);
    r
}

fn to_verdict(r: Result<Result<(), String>, Verdict>) -> Verdict {
    match r {
        Ok(Ok(())) => Verdict::Ok,
        Ok(Err(e)) => Verdict::Err(e),
        Err(v) => v,
    }
}

// ---------------------------------------------------------------------------
// One-shot entry points

#[derive(Clone, Copy, Debug, PartialEq, Eq, Hash)]
pub enum Entry {
    Lzma,
    Lzma2,
    Xz,
}

#[derive(Clone, Debug)]
pub struct Call {
    pub verdict: Verdict,
    /// logical bytes consumed from the reader
    pub consumed: usize,
    pub read_calls: u64,
    pub read_faults_fired: u64,
}

pub fn default_options() -> Options {
    Options::default()
}

/// ReadFromHeader, no limit, complete input required
pub fn is_default_options(o: &Options) -> bool {
    matches!(o.unpacked_size, UnpackedSize::ReadFromHeader) && o.memlimit.is_none() && !o.allow_incomplete
}

pub fn opts(us: UnpackedSize, memlimit: Option<usize>, allow_incomplete: bool) -> Options {
    Options {
        unpacked_size: us,
        memlimit,
        allow_incomplete,
    }
}

pub fn decode_with_stats(
    entry: Entry,
    data: &[u8],
    options: &Options,
    rk: ReaderKind,
    sink: &SharedSink,
    obs: &ObsRef,
    rs: Rc<RefCell<ReadStats>>,
) -> Call {
    let mut sink = sink.clone();
    let rs2 = rs.clone();
    let r = observed(obs, || {
        let mut reader = make_reader(rk, data, rs2);
        match entry {
            // the plain wrapper and the explicit default options must be the same thing: alternate
            Entry::Lzma if is_default_options(options) && data.len() % 2 == 0 => lzma_rs::lzma_decompress(&mut reader, &mut sink),
            // a limit that can never bind is the same as no limit (C10): every eighth call says so
            Entry::Lzma if options.memlimit.is_none() && data.len() % 8 == 3 => {
                let mut o = options.clone();
                o.memlimit = Some(usize::MAX);
                lzma_rs::lzma_decompress_with_options(&mut reader, &mut sink, &o)
            }
            Entry::Lzma => lzma_rs::lzma_decompress_with_options(&mut reader, &mut sink, options),
            Entry::Lzma2 => lzma_rs::lzma2_decompress(&mut reader, &mut sink),
            Entry::Xz => lzma_rs::xz_decompress(&mut reader, &mut sink),
        }
        .map_err(|e| e.to_string())
    });
    let st = rs.borrow();
    Call {
        verdict: to_verdict(r),
        consumed: st.consumed,
        read_calls: st.calls,
        read_faults_fired: st.faults_fired,
    }
}

pub fn decode(
    entry: Entry,
    data: &[u8],
    options: &Options,
    rk: ReaderKind,
    sink: &SharedSink,
    obs: &ObsRef,
) -> Call {
    decode_with_stats(
        entry,
        data,
        options,
        rk,
        sink,
        obs,
        Rc::new(RefCell::new(ReadStats::default())),
    )
}

/// Convenience: decode from a slice into a fresh storing sink.
pub fn decode_simple(entry: Entry, data: &[u8], options: &Options) -> (Verdict, Vec<u8>) {
    let sink = SharedSink::new();
    let obs = new_obs(u64::MAX);
    let c = decode(entry, data, options, ReaderKind::Slice, &sink, &obs);
    (c.verdict, sink.bytes())
}

// ---------------------------------------------------------------------------
// Raw decoders

pub fn props(lc: u32, lp: u32, pb: u32) -> LzmaProperties {
    LzmaProperties { lc, lp, pb }
}

/// Construct a raw LZMA decoder; Err(verdict) if the constructor refuses
/// (error value) or panics (assert on out-of-range lc/lp/pb).
pub fn raw_lzma_new(
    lc: u32,
    lp: u32,
    pb: u32,
    dict_size: u32,
    unpacked: Option<u64>,
    memlimit: Option<usize>,
) -> Result<LzmaDecoder, Verdict> {
    match guarded(|| {
        LzmaDecoder::new(LzmaParams::new(props(lc, lp, pb), dict_size, unpacked), memlimit)
            .map_err(|e| e.to_string())
    }) {
        Ok(Ok(d)) => Ok(d),
        Ok(Err(e)) => Err(Verdict::Err(e)),
        Err(v) => Err(v),
    }
}

pub fn raw_lzma_decompress(
    dec: &mut LzmaDecoder,
    data: &[u8],
    rk: ReaderKind,
    sink: &SharedSink,
    obs: &ObsRef,
) -> Call {
    let rs = Rc::new(RefCell::new(ReadStats::default()));
    let rs2 = rs.clone();
    let mut sink = sink.clone();
    let r = observed(obs, || {
        let mut reader = make_reader(rk, data, rs2);
        dec.decompress(&mut reader, &mut sink).map_err(|e| e.to_string())
    });
    let st = rs.borrow();
    Call {
        verdict: to_verdict(r),
        consumed: st.consumed,
        read_calls: st.calls,
        read_faults_fired: st.faults_fired,
    }
}

pub fn raw_lzma2_decompress(
    dec: &mut Lzma2Decoder,
    data: &[u8],
    rk: ReaderKind,
    sink: &SharedSink,
    obs: &ObsRef,
) -> Call {
    let rs = Rc::new(RefCell::new(ReadStats::default()));
    let rs2 = rs.clone();
    let mut sink = sink.clone();
    let r = observed(obs, || {
        let mut reader = make_reader(rk, data, rs2);
        dec.decompress(&mut reader, &mut sink).map_err(|e| e.to_string())
    });
    let st = rs.borrow();
    Call {
        verdict: to_verdict(r),
        consumed: st.consumed,
        read_calls: st.calls,
        read_faults_fired: st.faults_fired,
    }
}

// ---------------------------------------------------------------------------
// .lzma header helper

pub fn lzma_header(props_byte: u8, dict: u32, size: Option<Option<u64>>) -> Vec<u8> {
    let mut h = vec![props_byte];
    h.extend_from_slice(&dict.to_le_bytes());
    match size {
        None => {}
        Some(None) => h.extend_from_slice(&u64::MAX.to_le_bytes()),
        Some(Some(n)) => h.extend_from_slice(&n.to_le_bytes()),
    }
    h
}

//! Case scheduling over worker threads, coverage accumulation, known
//! findings, replay files and the evidence writer.

use crate::util::{hex_trunc, J};
use std::collections::{BTreeMap, BTreeSet};
use std::sync::atomic::{AtomicBool, AtomicU64, Ordering};
use std::sync::{Arc, Mutex};
use std::time::{Duration, Instant};

#[derive(Clone, Copy, Debug, PartialEq, Eq)]
pub enum Tier {
    Quick,
    Thorough,
}

impl Tier {
    pub fn name(&self) -> &'static str {
        match self {
            Tier::Quick => "quick",
            Tier::Thorough => "thorough",
        }
    }
    pub fn pick<T>(&self, q: T, t: T) -> T {
        match self {
            Tier::Quick => q,
            Tier::Thorough => t,
        }
    }
}

/// Coverage counters keyed by (group, index); `max` keeps maxima.
#[derive(Clone, Debug, Default)]
pub struct Cov {
    pub counts: BTreeMap<(&'static str, u32), u64>,
    pub maxes: BTreeMap<&'static str, u64>,
    pub named: BTreeMap<String, u64>,
}

impl Cov {
    pub fn add(&mut self, group: &'static str, idx: u32, n: u64) {
        if n > 0 {
            *self.counts.entry((group, idx)).or_insert(0) += n;
        }
    }
    pub fn inc(&mut self, group: &'static str, idx: u32) {
        self.add(group, idx, 1);
    }
    pub fn max(&mut self, key: &'static str, v: u64) {
        let e = self.maxes.entry(key).or_insert(0);
        if v > *e {
            *e = v;
        }
    }
    pub fn name(&mut self, key: &str, n: u64) {
        *self.named.entry(key.to_string()).or_insert(0) += n;
    }
    pub fn get(&self, group: &'static str, idx: u32) -> u64 {
        self.counts.get(&(group, idx)).copied().unwrap_or(0)
    }
    pub fn get_named(&self, key: &str) -> u64 {
        self.named.get(key).copied().unwrap_or(0)
    }
    pub fn group_nonzero(&self, group: &'static str) -> usize {
        self.counts
            .iter()
            .filter(|((g, _), v)| *g == group && **v > 0)
            .count()
    }
    pub fn group_total(&self, group: &'static str) -> u64 {
        self.counts
            .iter()
            .filter(|((g, _), _)| *g == group)
            .map(|(_, v)| *v)
            .sum()
    }
    pub fn merge(&mut self, o: &Cov) {
        for (k, v) in &o.counts {
            *self.counts.entry(*k).or_insert(0) += *v;
        }
        for (k, v) in &o.maxes {
            self.max(k, *v);
        }
        for (k, v) in &o.named {
            *self.named.entry(k.clone()).or_insert(0) += *v;
        }
    }
}

#[derive(Clone, Debug)]
pub struct Violation {
    /// stable identification of *what* fails (matched against known findings)
    pub signature: String,
    /// human-readable: expected vs observed
    pub detail: String,
    /// extra data for the replay file (inputs in hex etc.)
    pub data: J,
}

#[derive(Clone, Debug, Default)]
pub struct CaseOut {
    /// executions of lzma-rs judged by the oracle in this case
    pub evals: u64,
    /// hashes of the distinct non-trivial sub-cases
    pub nontrivial: Vec<u64>,
    pub violations: Vec<Violation>,
    /// harness / oracle problems: make the run inconclusive, never a violation
    pub harness_errors: Vec<String>,
    /// a written-out description of the case (kept for a few cases only)
    pub sample: Option<J>,
    /// informational warnings (e.g. trace anomaly without boundary anomaly)
    pub warnings: Vec<String>,
}

impl CaseOut {
    pub fn violate(&mut self, signature: impl Into<String>, detail: impl Into<String>, data: J) {
        self.violations.push(Violation {
            signature: signature.into(),
            detail: detail.into(),
            data,
        });
    }
    pub fn harness_error(&mut self, e: impl Into<String>) {
        self.harness_errors.push(e.into());
    }
}

pub struct CaseCtx {
    pub seed: u64,
    pub family: &'static str,
    pub index: u64,
    pub tier: Tier,
    /// true when re-running a single case from a replay file
    pub verbose: bool,
}

impl CaseCtx {
    pub fn rng(&self) -> crate::util::Rng {
        crate::util::Rng::for_case(self.seed, self.family, self.index)
    }
    pub fn say(&self, s: impl AsRef<str>) {
        if self.verbose {
            println!("  | {}", s.as_ref());
        }
    }
}

pub type CaseFn = fn(&CaseCtx, &mut Cov) -> CaseOut;

pub struct Family {
    pub name: &'static str,
    pub count: u64,
    /// run before the interleaved phase (small enumerations that coverage
    /// floors depend on)
    pub priority: bool,
    /// does not depend on the seed (an enumeration)
    pub enumerated: bool,
    pub run: CaseFn,
}

pub struct Monitor {
    pub id: &'static str,
    pub level: &'static str,
    pub rule: &'static str,
    pub assumptions: Vec<String>,
    pub families: Vec<Family>,
    /// names for coverage indices
    pub label: fn(&str, u32) -> String,
    /// coverage floors: returns reasons for "inconclusive" when missed
    pub floors: fn(Tier, &Cov) -> Vec<String>,
    /// extra evidence derived from the coverage table
    pub summarize: fn(&Cov) -> J,
}

pub fn default_label(_: &str, i: u32) -> String {
    i.to_string()
}
pub fn no_floors(_: Tier, _: &Cov) -> Vec<String> {
    vec![]
}
pub fn no_summary(_: &Cov) -> J {
    J::Null
}

pub struct RunCfg {
    pub tier: Tier,
    pub seed: u64,
    pub threads: usize,
    pub budget: Duration,
    pub evidence_path: Option<String>,
    pub replay_dir: String,
    pub known_findings_path: String,
    pub profile: &'static str,
    /// write a machine-readable summary here (sub-run of another profile)
    pub summary_path: Option<String>,
    /// summaries of sub-runs to merge into the evidence
    pub merged: Vec<J>,
}

#[derive(Clone, Debug)]
pub struct KnownFinding {
    pub property: String,
    pub signature: String,
    pub status: String,
    pub description: String,
}

pub fn load_known_findings(path: &str) -> Result<Vec<KnownFinding>, String> {
    let text = match std::fs::read_to_string(path) {
        Ok(t) => t,
        Err(_) => return Ok(vec![]),
    };
    let j = J::parse(&text)?;
    let mut out = Vec::new();
    if let Some(arr) = j.get("findings").and_then(|a| a.as_arr()) {
        for f in arr {
            out.push(KnownFinding {
                property: f.get("property").and_then(|x| x.as_str()).unwrap_or("").to_string(),
                signature: f.get("signature").and_then(|x| x.as_str()).unwrap_or("").to_string(),
                status: f.get("status").and_then(|x| x.as_str()).unwrap_or("").to_string(),
                description: f
                    .get("description")
                    .and_then(|x| x.as_str())
                    .unwrap_or("")
                    .to_string(),
            });
        }
    }
    Ok(out)
}

struct Shared {
    next: AtomicU64,
    stop: AtomicBool,
    results: Mutex<Merged>,
}

#[derive(Default)]
struct Merged {
    cov: Cov,
    evals: u64,
    cases: u64,
    nontrivial: Vec<u64>,
    violations: Vec<(String, u64, Violation)>,
    harness_errors: Vec<String>,
    warnings: BTreeMap<String, u64>,
    samples: BTreeMap<String, Vec<J>>,
    fam_run: BTreeMap<&'static str, u64>,
}

const NBLOCKS: u64 = 128;

/// Maps a job number to (family, index): first all priority families in order,
/// then the remaining families interleaved block-wise so that a time budget
/// that ends early still leaves every family sampled.
struct Schedule {
    prio: Vec<(usize, u64)>, // (family idx, count)
    prio_total: u64,
    rest: Vec<(usize, u64, u64)>, // (family idx, count, block size)
    stride: u64,
}

impl Schedule {
    fn new(fams: &[Family]) -> Self {
        let mut prio = Vec::new();
        let mut rest = Vec::new();
        for (i, f) in fams.iter().enumerate() {
            if f.count == 0 {
                continue;
            }
            if f.priority {
                prio.push((i, f.count));
            } else {
                let b = (f.count + NBLOCKS - 1) / NBLOCKS;
                rest.push((i, f.count, b));
            }
        }
        let prio_total = prio.iter().map(|p| p.1).sum();
        let stride = rest.iter().map(|r| r.2).sum();
        Schedule {
            prio,
            prio_total,
            rest,
            stride,
        }
    }
    fn total_jobs(&self) -> u64 {
        self.prio_total + self.stride * NBLOCKS
    }
    fn job(&self, mut n: u64) -> Option<(usize, u64)> {
        if n < self.prio_total {
            for &(f, c) in &self.prio {
                if n < c {
                    return Some((f, n));
                }
                n -= c;
            }
        }
        n -= self.prio_total;
        if self.stride == 0 {
            return None;
        }
        let block = n / self.stride;
        let mut off = n % self.stride;
        for &(f, c, b) in &self.rest {
            if off < b {
                let idx = block * b + off;
                return if idx < c { Some((f, idx)) } else { None };
            }
            off -= b;
        }
        None
    }
}

pub struct Outcome {
    pub exit_code: i32,
}

pub fn run_monitor(mon: &Monitor, cfg: &RunCfg) -> Outcome {
    let start = Instant::now();
    let known = match load_known_findings(&cfg.known_findings_path) {
        Ok(k) => k,
        Err(e) => {
            println!("INCONCLUSIVE: cannot parse known findings file: {}", e);
            return Outcome { exit_code: 2 };
        }
    };
    crate::alloc::RUN_SEED.store(cfg.seed, Ordering::Relaxed);
    crate::alloc::RUN_THOROUGH.store(cfg.tier == Tier::Thorough, Ordering::Relaxed);
    let sched = Schedule::new(&mon.families);
    let total_jobs = sched.total_jobs();
    let shared = Arc::new(Shared {
        next: AtomicU64::new(0),
        stop: AtomicBool::new(false),
        results: Mutex::new(Merged::default()),
    });
    let deadline = start + cfg.budget;
    let threads = cfg.threads.max(1);
    // watchdog: per-thread "current case started at" stamps
    let stamps: Arc<Vec<AtomicU64>> = Arc::new((0..threads).map(|_| AtomicU64::new(0)).collect());
    let current: Arc<Vec<Mutex<String>>> =
        Arc::new((0..threads).map(|_| Mutex::new(String::new())).collect());

    let done = Arc::new(AtomicBool::new(false));
    std::thread::scope(|scope| {
        let mut handles = Vec::new();
        for t in 0..threads {
            let shared = shared.clone();
            let sched = &sched;
            let stamps = stamps.clone();
            let current = current.clone();
            let fams = &mon.families;
            let tier = cfg.tier;
            let seed = cfg.seed;
            let prop_id = mon.id;
            let h = std::thread::Builder::new()
                .stack_size(64 << 20)
                .spawn_scoped(scope, move || {
                    let mut local = Merged::default();
                    loop {
                        if shared.stop.load(Ordering::Relaxed) {
                            break;
                        }
                        let n = shared.next.fetch_add(1, Ordering::Relaxed);
                        if n >= total_jobs {
                            break;
                        }
                        let prio_phase = n < sched.prio_total;
                        if !prio_phase && Instant::now() > deadline {
                            break;
                        }
                        let (fi, idx) = match sched.job(n) {
                            Some(j) => j,
                            None => continue,
                        };
                        let fam = &fams[fi];
                        let ctx = CaseCtx {
                            seed: if fam.enumerated { 0 } else { seed },
                            family: fam.name,
                            index: idx,
                            tier,
                            verbose: false,
                        };
                        *current[t].lock().unwrap() = format!("{}#{}", fam.name, idx);
                        crate::alloc::CURRENT_CASE.with(|c| c.set((prop_id, fam.name, idx)));
                        stamps[t].store(start.elapsed().as_millis() as u64 + 1, Ordering::Relaxed);
                        let out = match crate::sut::guarded(|| (fam.run)(&ctx, &mut local.cov)) {
                            Ok(o) => o,
                            Err(v) => {
                                let mut o = CaseOut::default();
                                o.harness_error(format!(
                                    "harness panicked in {}#{}: {}",
                                    fam.name,
                                    idx,
                                    v.short()
                                ));
                                o
                            }
                        };
                        stamps[t].store(0, Ordering::Relaxed);
                        local.cases += 1;
                        local.evals += out.evals;
                        *local.fam_run.entry(fam.name).or_insert(0) += 1;
                        local.nontrivial.extend_from_slice(&out.nontrivial);
                        for v in out.violations {
                            if local.violations.len() < 200 {
                                local.violations.push((fam.name.to_string(), idx, v));
                            }
                        }
                        for e in out.harness_errors {
                            if local.harness_errors.len() < 50 {
                                local.harness_errors.push(e);
                            }
                        }
                        for w in out.warnings {
                            *local.warnings.entry(w).or_insert(0) += 1;
                        }
                        if let Some(s) = out.sample {
                            let v = local.samples.entry(fam.name.to_string()).or_default();
                            if v.len() < 2 {
                                v.push(s);
                            }
                        }
                    }
                    let mut g = shared.results.lock().unwrap();
                    g.cov.merge(&local.cov);
                    g.evals += local.evals;
                    g.cases += local.cases;
                    g.nontrivial.append(&mut local.nontrivial);
                    g.violations.append(&mut local.violations);
                    g.harness_errors.append(&mut local.harness_errors);
                    for (k, v) in local.warnings {
                        *g.warnings.entry(k).or_insert(0) += v;
                    }
                    for (k, v) in local.samples {
                        let e = g.samples.entry(k).or_default();
                        for s in v {
                            if e.len() < 2 {
                                e.push(s);
                            }
                        }
                    }
                    for (k, v) in local.fam_run {
                        *g.fam_run.entry(k).or_insert(0) += v;
                    }
                })
                .expect("spawn worker");
            handles.push(h);
        }
        // watchdog thread: a single case running for more than the limit makes
        // the run inconclusive (never a violation: wall-clock is not a verdict)
        let stamps_w = stamps.clone();
        let current_w = current.clone();
        let done_w = done.clone();
        let limit_ms: u64 = std::env::var("VERIF_CASE_TIMEOUT_S")
            .ok()
            .and_then(|s| s.parse::<u64>().ok())
            .unwrap_or(900)
            * 1000;
        let id = mon.id;
        scope.spawn(move || {
            while !done_w.load(Ordering::Relaxed) {
                std::thread::sleep(Duration::from_millis(100));
                let now = start.elapsed().as_millis() as u64 + 1;
                for (t, s) in stamps_w.iter().enumerate() {
                    let st = s.load(Ordering::Relaxed);
                    if st != 0 && now > st && now - st > limit_ms {
                        println!(
                            "INCONCLUSIVE property={} watchdog: case {} exceeded {} s wall-clock",
                            id,
                            current_w[t].lock().unwrap(),
                            limit_ms / 1000
                        );
                        std::process::exit(2);
                    }
                }
            }
        });
        for h in handles {
            let _ = h.join();
        }
        done.store(true, Ordering::Relaxed);
    });

    let mut g = shared.results.lock().unwrap();
    g.nontrivial.sort_unstable();
    g.nontrivial.dedup();
    let distinct = g.nontrivial.len() as u64;
    let wall = start.elapsed().as_secs_f64();

    // classify violations
    let mut printed: BTreeSet<String> = BTreeSet::new();
    let mut known_hit: BTreeMap<String, u64> = BTreeMap::new();
    let mut new_violations: Vec<(String, u64, Violation)> = Vec::new();
    for (fam, idx, v) in g.violations.iter() {
        let is_known = known
            .iter()
            .any(|k| k.property == mon.id && k.status == "open" && k.signature == v.signature);
        if is_known {
            *known_hit.entry(v.signature.clone()).or_insert(0) += 1;
        } else {
            new_violations.push((fam.clone(), *idx, v.clone()));
        }
    }
    for k in known.iter().filter(|k| k.property == mon.id && k.status == "open") {
        if let Some(n) = known_hit.get(&k.signature) {
            println!(
                "KNOWN-FINDING: property={} {} [{}; seen {}x this run]",
                mon.id, k.description, k.signature, n
            );
        }
    }
    let _ = std::fs::create_dir_all(&cfg.replay_dir);
    let mut replay_paths = Vec::new();
    new_violations.sort_by(|a, b| (a.2.signature.as_str(), a.1).cmp(&(b.2.signature.as_str(), b.1)));
    for (fam, idx, v) in &new_violations {
        if printed.contains(&v.signature) {
            continue;
        }
        if printed.len() >= 12 {
            break;
        }
        printed.insert(v.signature.clone());
        let h = crate::util::fnv(format!("{}{}{}", v.signature, fam, idx).as_bytes());
        let path = format!("{}/{}-{:016x}.json", cfg.replay_dir, mon.id, h);
        let j = J::obj()
            .set("property", J::s(mon.id))
            .set("family", J::s(fam.as_str()))
            .set("index", J::i(*idx))
            .set("seed", J::i(cfg.seed))
            .set("tier", J::s(cfg.tier.name()))
            .set("profile", J::s(cfg.profile))
            .set("signature", J::s(v.signature.as_str()))
            .set("detail", J::s(v.detail.as_str()))
            .set("data", v.data.clone());
        let _ = std::fs::write(&path, j.dump());
        println!("VIOLATION property={} replay={}", mon.id, path);
        println!("  signature: {}", v.signature);
        println!("  detail: {}", hex_trunc_str(&v.detail, 600));
        replay_paths.push(path);
    }

    let mut inconclusive: Vec<String> = Vec::new();
    for e in g.harness_errors.iter().take(10) {
        inconclusive.push(format!("harness/oracle error: {}", e));
    }
    let floors = (mon.floors)(cfg.tier, &g.cov);
    for f in floors {
        inconclusive.push(format!("coverage floor missed: {}", f));
    }
    if g.evals == 0 {
        inconclusive.push("no evaluations ran".into());
    }

    // evidence
    let mut cov_j = J::obj();
    let mut groups: BTreeMap<&'static str, Vec<(String, u64)>> = BTreeMap::new();
    for ((gname, idx), v) in &g.cov.counts {
        groups
            .entry(gname)
            .or_default()
            .push(((mon.label)(gname, *idx), *v));
    }
    for (gname, items) in groups {
        let mut o = J::obj();
        for (k, v) in items {
            o.put(&k, J::i(v));
        }
        cov_j.put(gname, o);
    }
    for (k, v) in &g.cov.maxes {
        cov_j.put(&format!("max.{}", k), J::i(*v));
    }
    for (k, v) in &g.cov.named {
        cov_j.put(k, J::i(*v));
    }
    let mut samples = Vec::new();
    for (fam, ss) in &g.samples {
        for s in ss {
            samples.push(J::obj().set("family", J::s(fam.as_str())).set("case", s.clone()));
        }
    }
    let mut fams_j = J::obj();
    for f in &mon.families {
        fams_j.put(
            f.name,
            J::obj()
                .set("planned", J::i(f.count))
                .set("run", J::i(g.fam_run.get(f.name).copied().unwrap_or(0)))
                .set("enumerated", J::Bool(f.enumerated)),
        );
    }
    let all_planned_ran = mon
        .families
        .iter()
        .all(|f| g.fam_run.get(f.name).copied().unwrap_or(0) == f.count);
    let verdict = if !new_violations.is_empty() {
        "violated"
    } else if !inconclusive.is_empty() {
        "inconclusive"
    } else {
        "held_on_observed"
    };
    let mut warn_j = J::obj();
    for (k, v) in g.warnings.iter().take(40) {
        warn_j.put(k, J::i(*v));
    }
    let mut coverage = J::obj()
        .set("evaluations", J::i(g.evals))
        .set("distinct_nontrivial", J::i(distinct))
        .set("rule", J::s(mon.rule))
        .set("samples", J::Arr(samples))
        .set("cases", J::i(g.cases))
        .set("families", fams_j)
        .set("all_planned_cases_ran", J::Bool(all_planned_ran))
        .set("observed", cov_j)
        .set("profile", J::s(cfg.profile))
        .set("verdict", J::s(verdict))
        .set("warnings", warn_j);
    let summary = (mon.summarize)(&g.cov);
    if summary != J::Null {
        coverage.put("summary", summary);
    }
    if !inconclusive.is_empty() {
        coverage.put(
            "inconclusive_reasons",
            J::Arr(inconclusive.iter().map(|s| J::s(s.as_str())).collect()),
        );
    }
    if !known_hit.is_empty() {
        let mut k = J::obj();
        for (s, n) in &known_hit {
            k.put(s, J::i(*n));
        }
        coverage.put("known_findings_seen", k);
    }
    if !new_violations.is_empty() {
        coverage.put(
            "violation_signatures",
            J::Arr(printed.iter().map(|s| J::s(s.as_str())).collect()),
        );
        coverage.put(
            "replays",
            J::Arr(replay_paths.iter().map(|s| J::s(s.as_str())).collect()),
        );
    }
    let mut sub_violations = 0i128;
    let mut sub_inconclusive = false;
    if !cfg.merged.is_empty() {
        for m in &cfg.merged {
            if let Some(J::Int(v)) = m.get("violations") {
                sub_violations += *v;
            }
            if m.get("verdict").and_then(|v| v.as_str()) == Some("inconclusive") {
                sub_inconclusive = true;
            }
        }
        coverage.put("other_profiles", J::Arr(cfg.merged.clone()));
    }
    let ev = J::obj()
        .set("property_id", J::s(mon.id))
        .set("tier", J::s(cfg.tier.name()))
        .set("seed", J::i(cfg.seed))
        .set("level", J::s(mon.level))
        .set("coverage", coverage)
        .set(
            "assumptions",
            J::Arr(mon.assumptions.iter().map(|s| J::s(s.as_str())).collect()),
        )
        .set("wall_s", J::Num(wall))
        .set("violations", J::Int(new_violations.len() as i128 + sub_violations));
    if let Some(p) = &cfg.evidence_path {
        if let Some(dir) = std::path::Path::new(p).parent() {
            let _ = std::fs::create_dir_all(dir);
        }
        if let Err(e) = std::fs::write(p, ev.dump()) {
            println!("INCONCLUSIVE: cannot write evidence {}: {}", p, e);
            return Outcome { exit_code: 2 };
        }
    }
    if let Some(p) = &cfg.summary_path {
        let s = J::obj()
            .set("profile", J::s(cfg.profile))
            .set("evaluations", J::i(g.evals))
            .set("distinct_nontrivial", J::i(distinct))
            .set("violations", J::Int(new_violations.len() as i128))
            .set("verdict", J::s(verdict))
            .set("wall_s", J::Num(wall));
        let _ = std::fs::write(p, s.dump());
    }
    println!(
        "{} [{} {} seed={}] {}: cases={} evaluations={} distinct_nontrivial={} violations={} wall={:.1}s",
        mon.id,
        cfg.profile,
        cfg.tier.name(),
        cfg.seed,
        verdict,
        g.cases,
        g.evals,
        distinct,
        new_violations.len(),
        wall
    );
    for r in &inconclusive {
        println!("  inconclusive: {}", r);
    }
    let code = if !new_violations.is_empty() || sub_violations > 0 {
        1
    } else if !inconclusive.is_empty() || sub_inconclusive {
        2
    } else {
        0
    };
    Outcome { exit_code: code }
}

fn hex_trunc_str(s: &str, max: usize) -> String {
    if s.len() <= max {
        s.to_string()
    } else {
        let mut end = max;
        while !s.is_char_boundary(end) {
            end -= 1;
        }
        format!("{}...", &s[..end])
    }
}

/// Re-run one case from a replay file, verbosely.
pub fn replay(mon: &Monitor, path: &str, tier_default: Tier) -> i32 {
    let text = match std::fs::read_to_string(path) {
        Ok(t) => t,
        Err(e) => {
            println!("cannot read {}: {}", path, e);
            return 2;
        }
    };
    let j = match J::parse(&text) {
        Ok(j) => j,
        Err(e) => {
            println!("cannot parse {}: {}", path, e);
            return 2;
        }
    };
    let fam_name = j.get("family").and_then(|x| x.as_str()).unwrap_or("");
    let index = j.get("index").and_then(|x| x.as_u64()).unwrap_or(0);
    let seed = j.get("seed").and_then(|x| x.as_u64()).unwrap_or(0);
    let tier = match j.get("tier").and_then(|x| x.as_str()) {
        Some("thorough") => Tier::Thorough,
        Some("quick") => Tier::Quick,
        _ => tier_default,
    };
    let fam = match mon.families.iter().find(|f| f.name == fam_name) {
        Some(f) => f,
        None => {
            println!("unknown family {:?} for {}", fam_name, mon.id);
            return 2;
        }
    };
    println!(
        "replaying {} family={} index={} seed={} tier={}",
        mon.id,
        fam_name,
        index,
        seed,
        tier.name()
    );
    if let Some(sig) = j.get("signature").and_then(|x| x.as_str()) {
        println!("recorded signature: {}", sig);
    }
    let ctx = CaseCtx {
        seed: if fam.enumerated { 0 } else { seed },
        family: fam.name,
        index,
        tier,
        verbose: true,
    };
    let mut cov = Cov::default();
    let out = (fam.run)(&ctx, &mut cov);
    if let Some(s) = &out.sample {
        println!("case: {}", s.dump_compact());
    }
    for e in &out.harness_errors {
        println!("harness error: {}", e);
    }
    if out.violations.is_empty() {
        println!("no violation reproduced ({} evaluations)", out.evals);
        return 0;
    }
    for v in &out.violations {
        println!("VIOLATION property={} replay={}", mon.id, path);
        println!("  signature: {}", v.signature);
        println!("  detail: {}", v.detail);
    }
    1
}

pub fn sample_bytes(b: &[u8]) -> J {
    J::s(hex_trunc(b, 96))
}

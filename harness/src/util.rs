//! PRNG, hashing, tiny JSON writer/reader, hex helpers.

use std::collections::BTreeMap;
use std::fmt::Write as _;

#[derive(Clone, Debug)]
pub struct Rng {
    s: u64,
}

pub fn splitmix(x: &mut u64) -> u64 {
    *x = x.wrapping_add(0x9E37_79B9_7F4A_7C15);
    let mut z = *x;
    z = (z ^ (z >> 30)).wrapping_mul(0xBF58_476D_1CE4_E5B9);
    z = (z ^ (z >> 27)).wrapping_mul(0x94D0_49BB_1331_11EB);
    z ^ (z >> 31)
}

pub fn mix(a: u64, b: u64) -> u64 {
    let mut x = a ^ b.rotate_left(32) ^ 0xD6E8_FEB8_6659_FD93;
    let r = splitmix(&mut x);
    r ^ splitmix(&mut x)
}

pub fn hash_str(s: &str) -> u64 {
    fnv(s.as_bytes())
}

pub fn fnv(b: &[u8]) -> u64 {
    let mut h = 0xcbf2_9ce4_8422_2325u64;
    for &x in b {
        h ^= x as u64;
        h = h.wrapping_mul(0x0000_0100_0000_01B3);
    }
    h
}

impl Rng {
    pub fn new(seed: u64) -> Self {
        let mut s = seed;
        let a = splitmix(&mut s);
        Rng { s: a | 1 }
    }
    /// independent stream for (seed, tag, index)
    pub fn for_case(seed: u64, tag: &str, index: u64) -> Self {
        Rng::new(mix(mix(seed, hash_str(tag)), index))
    }
    pub fn next(&mut self) -> u64 {
        // xorshift64*
        let mut x = self.s;
        x ^= x >> 12;
        x ^= x << 25;
        x ^= x >> 27;
        self.s = x;
        x.wrapping_mul(0x2545_F491_4F6C_DD1D)
    }
    /// uniform in 0..n (n > 0)
    pub fn below(&mut self, n: u64) -> u64 {
        debug_assert!(n > 0);
        ((self.next() >> 11) as u128 * n as u128 >> 53) as u64
    }
    pub fn range(&mut self, lo: u64, hi_incl: u64) -> u64 {
        lo + self.below(hi_incl - lo + 1)
    }
    pub fn usize_below(&mut self, n: usize) -> usize {
        self.below(n as u64) as usize
    }
    pub fn chance(&mut self, num: u64, den: u64) -> bool {
        self.below(den) < num
    }
    pub fn byte(&mut self) -> u8 {
        (self.next() >> 56) as u8
    }
    pub fn pick<'a, T>(&mut self, xs: &'a [T]) -> &'a T {
        &xs[self.usize_below(xs.len())]
    }
    pub fn bytes(&mut self, n: usize) -> Vec<u8> {
        (0..n).map(|_| self.byte()).collect()
    }
    /// index chosen with the given weights
    pub fn weighted(&mut self, w: &[u64]) -> usize {
        let total: u64 = w.iter().sum();
        let mut x = self.below(total.max(1));
        for (i, &wi) in w.iter().enumerate() {
            if x < wi {
                return i;
            }
            x -= wi;
        }
        w.len() - 1
    }
}

pub fn hex(b: &[u8]) -> String {
    let mut s = String::with_capacity(b.len() * 2);
    for x in b {
        let _ = write!(s, "{:02x}", x);
    }
    s
}

pub fn hex_trunc(b: &[u8], max: usize) -> String {
    if b.len() <= max {
        hex(b)
    } else {
        format!("{}..(+{} bytes)", hex(&b[..max]), b.len() - max)
    }
}

pub fn unhex(s: &str) -> Option<Vec<u8>> {
    let s = s.as_bytes();
    if s.len() % 2 != 0 {
        return None;
    }
    let v = |c: u8| -> Option<u8> {
        match c {
            b'0'..=b'9' => Some(c - b'0'),
            b'a'..=b'f' => Some(c - b'a' + 10),
            b'A'..=b'F' => Some(c - b'A' + 10),
            _ => None,
        }
    };
    let mut out = Vec::with_capacity(s.len() / 2);
    for p in s.chunks(2) {
        out.push(v(p[0])? << 4 | v(p[1])?);
    }
    Some(out)
}

// ---------------------------------------------------------------------------
// JSON

#[derive(Clone, Debug, PartialEq)]
pub enum J {
    Null,
    Bool(bool),
    Int(i128),
    Num(f64),
    Str(String),
    Arr(Vec<J>),
    Obj(Vec<(String, J)>),
}

impl J {
    pub fn obj() -> J {
        J::Obj(Vec::new())
    }
    pub fn set(mut self, k: &str, v: J) -> J {
        if let J::Obj(ref mut o) = self {
            if let Some(e) = o.iter_mut().find(|(kk, _)| kk == k) {
                e.1 = v;
            } else {
                o.push((k.to_string(), v));
            }
        }
        self
    }
    pub fn put(&mut self, k: &str, v: J) {
        if let J::Obj(ref mut o) = self {
            if let Some(e) = o.iter_mut().find(|(kk, _)| kk == k) {
                e.1 = v;
            } else {
                o.push((k.to_string(), v));
            }
        }
    }
    pub fn get(&self, k: &str) -> Option<&J> {
        if let J::Obj(o) = self {
            o.iter().find(|(kk, _)| kk == k).map(|(_, v)| v)
        } else {
            None
        }
    }
    pub fn as_str(&self) -> Option<&str> {
        if let J::Str(s) = self {
            Some(s)
        } else {
            None
        }
    }
    pub fn as_u64(&self) -> Option<u64> {
        match self {
            J::Int(i) if *i >= 0 => Some(*i as u64),
            _ => None,
        }
    }
    pub fn as_arr(&self) -> Option<&Vec<J>> {
        if let J::Arr(a) = self {
            Some(a)
        } else {
            None
        }
    }
    pub fn s(x: impl Into<String>) -> J {
        J::Str(x.into())
    }
    pub fn i(x: impl TryInto<i128>) -> J {
        J::Int(x.try_into().ok().unwrap_or(0))
    }
    pub fn from_map(m: &BTreeMap<String, u64>) -> J {
        J::Obj(m.iter().map(|(k, v)| (k.clone(), J::Int(*v as i128))).collect())
    }

    pub fn dump(&self) -> String {
        let mut s = String::new();
        self.write(&mut s, 0, true);
        s
    }
    pub fn dump_compact(&self) -> String {
        let mut s = String::new();
        self.write(&mut s, 0, false);
        s
    }
    fn write(&self, s: &mut String, ind: usize, pretty: bool) {
        match self {
            J::Null => s.push_str("null"),
            J::Bool(b) => s.push_str(if *b { "true" } else { "false" }),
            J::Int(i) => {
                let _ = write!(s, "{}", i);
            }
            J::Num(f) => {
                if f.is_finite() {
                    let _ = write!(s, "{:.3}", f);
                } else {
                    s.push_str("0")
                }
            }
            J::Str(x) => write_str(s, x),
            J::Arr(a) => {
                if a.is_empty() {
                    s.push_str("[]");
                    return;
                }
                s.push('[');
                for (i, v) in a.iter().enumerate() {
                    if i > 0 {
                        s.push(',');
                    }
                    if pretty {
                        s.push('\n');
                        s.push_str(&" ".repeat(ind + 1));
                    }
                    v.write(s, ind + 1, pretty);
                }
                if pretty {
                    s.push('\n');
                    s.push_str(&" ".repeat(ind));
                }
                s.push(']');
            }
            J::Obj(o) => {
                if o.is_empty() {
                    s.push_str("{}");
                    return;
                }
                s.push('{');
                for (i, (k, v)) in o.iter().enumerate() {
                    if i > 0 {
                        s.push(',');
                    }
                    if pretty {
                        s.push('\n');
                        s.push_str(&" ".repeat(ind + 1));
                    }
                    write_str(s, k);
                    s.push(':');
                    if pretty {
                        s.push(' ');
                    }
                    v.write(s, ind + 1, pretty);
                }
                if pretty {
                    s.push('\n');
                    s.push_str(&" ".repeat(ind));
                }
                s.push('}');
            }
        }
    }

    pub fn parse(text: &str) -> Result<J, String> {
        let b = text.as_bytes();
        let mut p = 0usize;
        let v = parse_val(b, &mut p)?;
        skip_ws(b, &mut p);
        if p != b.len() {
            return Err(format!("trailing data at {}", p));
        }
        Ok(v)
    }
}

fn write_str(s: &mut String, x: &str) {
    s.push('"');
    for c in x.chars() {
        match c {
            '"' => s.push_str("\\\""),
            '\\' => s.push_str("\\\\"),
            '\n' => s.push_str("\\n"),
            '\r' => s.push_str("\\r"),
            '\t' => s.push_str("\\t"),
            c if (c as u32) < 0x20 => {
                let _ = write!(s, "\\u{:04x}", c as u32);
            }
            c => s.push(c),
        }
    }
    s.push('"');
}

fn skip_ws(b: &[u8], p: &mut usize) {
    while *p < b.len() && matches!(b[*p], b' ' | b'\n' | b'\r' | b'\t') {
        *p += 1;
    }
}

fn parse_val(b: &[u8], p: &mut usize) -> Result<J, String> {
    skip_ws(b, p);
    if *p >= b.len() {
        return Err("eof".into());
    }
    match b[*p] {
        b'{' => {
            *p += 1;
            let mut o = Vec::new();
            skip_ws(b, p);
            if *p < b.len() && b[*p] == b'}' {
                *p += 1;
                return Ok(J::Obj(o));
            }
            loop {
                skip_ws(b, p);
                let k = match parse_val(b, p)? {
                    J::Str(s) => s,
                    _ => return Err("key".into()),
                };
                skip_ws(b, p);
                if *p >= b.len() || b[*p] != b':' {
                    return Err("colon".into());
                }
                *p += 1;
                let v = parse_val(b, p)?;
                o.push((k, v));
                skip_ws(b, p);
                if *p < b.len() && b[*p] == b',' {
                    *p += 1;
                    continue;
                }
                if *p < b.len() && b[*p] == b'}' {
                    *p += 1;
                    return Ok(J::Obj(o));
                }
                return Err(format!("object at {}", p));
            }
        }
        b'[' => {
            *p += 1;
            let mut a = Vec::new();
            skip_ws(b, p);
            if *p < b.len() && b[*p] == b']' {
                *p += 1;
                return Ok(J::Arr(a));
            }
            loop {
                a.push(parse_val(b, p)?);
                skip_ws(b, p);
                if *p < b.len() && b[*p] == b',' {
                    *p += 1;
                    continue;
                }
                if *p < b.len() && b[*p] == b']' {
                    *p += 1;
                    return Ok(J::Arr(a));
                }
                return Err(format!("array at {}", p));
            }
        }
        b'"' => {
            *p += 1;
            let mut s = String::new();
            while *p < b.len() {
                let c = b[*p];
                *p += 1;
                match c {
                    b'"' => return Ok(J::Str(s)),
                    b'\\' => {
                        if *p >= b.len() {
                            break;
                        }
                        let e = b[*p];
                        *p += 1;
                        match e {
                            b'n' => s.push('\n'),
                            b'r' => s.push('\r'),
                            b't' => s.push('\t'),
                            b'u' => {
                                if *p + 4 > b.len() {
                                    return Err("\\u".into());
                                }
                                let h = std::str::from_utf8(&b[*p..*p + 4]).map_err(|e| e.to_string())?;
                                let cp = u32::from_str_radix(h, 16).map_err(|e| e.to_string())?;
                                s.push(char::from_u32(cp).unwrap_or('?'));
                                *p += 4;
                            }
                            other => s.push(other as char),
                        }
                    }
                    _ => {
                        // copy utf-8 bytes verbatim
                        let start = *p - 1;
                        let mut end = *p;
                        while end < b.len() && b[end] != b'"' && b[end] != b'\\' {
                            end += 1;
                        }
                        s.push_str(std::str::from_utf8(&b[start..end]).map_err(|e| e.to_string())?);
                        *p = end;
                    }
                }
            }
            Err("unterminated string".into())
        }
        b't' if b[*p..].starts_with(b"true") => {
            *p += 4;
            Ok(J::Bool(true))
        }
        b'f' if b[*p..].starts_with(b"false") => {
            *p += 5;
            Ok(J::Bool(false))
        }
        b'n' if b[*p..].starts_with(b"null") => {
            *p += 4;
            Ok(J::Null)
        }
        _ => {
            let start = *p;
            while *p < b.len() && matches!(b[*p], b'0'..=b'9' | b'-' | b'+' | b'.' | b'e' | b'E') {
                *p += 1;
            }
            let t = std::str::from_utf8(&b[start..*p]).map_err(|e| e.to_string())?;
            if let Ok(i) = t.parse::<i128>() {
                Ok(J::Int(i))
            } else if let Ok(f) = t.parse::<f64>() {
                Ok(J::Num(f))
            } else {
                Err(format!("bad token at {}", start))
            }
        }
    }
}

//! Independent LZMA model: range encoder / decoder and the symbol coder,
//! written from the format description (LZMA SDK lzma-specification), not from
//! lzma-rs. Never calls lzma-rs.

use super::program::Sym;

pub const EOS_REP0: u32 = 0xFFFF_FFFF;

#[derive(Clone, Copy, Debug, PartialEq, Eq, Hash)]
pub struct Props {
    pub lc: u32,
    pub lp: u32,
    pub pb: u32,
}

impl Props {
    pub fn new(lc: u32, lp: u32, pb: u32) -> Self {
        Props { lc, lp, pb }
    }
    pub fn byte(&self) -> u8 {
        (self.lc + 9 * (self.lp + 5 * self.pb)) as u8
    }
    pub fn from_byte(b: u8) -> Option<Props> {
        if b >= 225 {
            return None;
        }
        let b = b as u32;
        Some(Props {
            lc: b % 9,
            lp: (b / 9) % 5,
            pb: b / 45,
        })
    }
}

#[derive(Clone)]
pub struct LenProbs {
    choice: u16,
    choice2: u16,
    low: [[u16; 8]; 16],
    mid: [[u16; 8]; 16],
    high: [u16; 256],
}

impl LenProbs {
    fn new() -> Self {
        LenProbs {
            choice: 0x400,
            choice2: 0x400,
            low: [[0x400; 8]; 16],
            mid: [[0x400; 8]; 16],
            high: [0x400; 256],
        }
    }
}

/// All adaptive state of the LZMA symbol coder.
#[derive(Clone)]
pub struct Model {
    pub props: Props,
    lit: Vec<u16>,
    is_match: [[u16; 16]; 12],
    is_rep: [u16; 12],
    is_rep_g0: [u16; 12],
    is_rep_g1: [u16; 12],
    is_rep_g2: [u16; 12],
    is_rep0_long: [[u16; 16]; 12],
    pos_slot: [[u16; 64]; 4],
    pos_spec: [u16; 115],
    align: [u16; 16],
    len: LenProbs,
    rep_len: LenProbs,
    pub state: usize,
    /// distance - 1 of the four most recently used distances
    pub reps: [u32; 4],
}

impl Model {
    pub fn new(props: Props) -> Self {
        Model {
            props,
            lit: vec![0x400; 0x300usize << (props.lc + props.lp)],
            is_match: [[0x400; 16]; 12],
            is_rep: [0x400; 12],
            is_rep_g0: [0x400; 12],
            is_rep_g1: [0x400; 12],
            is_rep_g2: [0x400; 12],
            is_rep0_long: [[0x400; 16]; 12],
            pos_slot: [[0x400; 64]; 4],
            pos_spec: [0x400; 115],
            align: [0x400; 16],
            len: LenProbs::new(),
            rep_len: LenProbs::new(),
            state: 0,
            reps: [0; 4],
        }
    }

    /// The 0x300 probabilities of one literal context.
    pub fn lit_row(&self, ctx: usize) -> &[u16] {
        &self.lit[ctx * 0x300..(ctx + 1) * 0x300]
    }

    /// Number of literal-coder probabilities that differ from their initial value.
    pub fn lit_dirty(&self) -> usize {
        self.lit.iter().filter(|&&p| p != 0x400).count()
    }

    pub fn is_match_cell(&self, state: usize, pos_state: usize) -> u16 {
        self.is_match[state][pos_state]
    }

    /// LZMA2 "state reset" (optionally with new properties).
    pub fn reset(&mut self, props: Props) {
        *self = Model::new(props);
    }

    fn lit_base(&self, pos: u64, prev: u8) -> usize {
        let lp_mask = (1u64 << self.props.lp) - 1;
        let ctx = (((pos & lp_mask) as usize) << self.props.lc)
            + ((prev as usize) >> (8 - self.props.lc));
        ctx * 0x300
    }
}

fn state_after_lit(s: usize) -> usize {
    if s < 4 {
        0
    } else if s < 10 {
        s - 3
    } else {
        s - 6
    }
}
fn state_after_match(s: usize) -> usize {
    if s < 7 {
        7
    } else {
        10
    }
}
fn state_after_rep(s: usize) -> usize {
    if s < 7 {
        8
    } else {
        11
    }
}
fn state_after_shortrep(s: usize) -> usize {
    if s < 7 {
        9
    } else {
        11
    }
}

/// Distance slot of a (distance - 1) value.
pub fn dist_slot(d: u32) -> u32 {
    if d < 4 {
        return d;
    }
    let n = 31 - d.leading_zeros(); // index of the highest set bit
    (n << 1) | ((d >> (n - 1)) & 1)
}

// ---------------------------------------------------------------------------
// Range encoder

#[derive(Clone)]
pub struct RcEnc {
    low: u64,
    range: u32,
    cache: u8,
    cache_size: u64,
    pub out: Vec<u8>,
    /// number of normalisation shifts so far (= bytes an eager decoder has read
    /// after its 5-byte preamble)
    pub norms: u64,
    /// carries propagated / longest pending 0xFF run (statistics)
    pub carries: u64,
    pub max_pending: u64,
    /// times the range register sat right at the normalisation threshold when the test
    /// `range < 2^24` was about to be made: [after a model bit, after a direct-bit halving]
    /// x [2^24 - 1, 2^24, 2^24 + 1]
    pub boundary: [u64; 6],
}

impl Default for RcEnc {
    fn default() -> Self {
        Self::new()
    }
}

impl RcEnc {
    pub fn new() -> Self {
        RcEnc {
            low: 0,
            range: 0xFFFF_FFFF,
            cache: 0,
            cache_size: 1,
            out: Vec::new(),
            norms: 0,
            carries: 0,
            max_pending: 0,
            boundary: [0; 6],
        }
    }

    #[inline]
    fn note_boundary(&mut self, site: usize) {
        match self.range {
            0x00FF_FFFF => self.boundary[site * 3] += 1,
            0x0100_0000 => self.boundary[site * 3 + 1] += 1,
            0x0100_0001 => self.boundary[site * 3 + 2] += 1,
            _ => {}
        }
    }

    fn shift_low(&mut self) {
        if (self.low as u32) < 0xFF00_0000 || (self.low >> 32) != 0 {
            let carry = (self.low >> 32) as u8;
            if carry != 0 {
                self.carries += 1;
            }
            if self.cache_size > self.max_pending {
                self.max_pending = self.cache_size;
            }
            let mut b = self.cache;
            loop {
                self.out.push(b.wrapping_add(carry));
                b = 0xFF;
                self.cache_size -= 1;
                if self.cache_size == 0 {
                    break;
                }
            }
            self.cache = ((self.low >> 24) & 0xFF) as u8;
        }
        self.cache_size += 1;
        self.low = (self.low & 0x00FF_FFFF) << 8;
    }

    fn normalize(&mut self) {
        while self.range < 0x0100_0000 {
            self.range <<= 8;
            self.shift_low();
            self.norms += 1;
        }
    }

    pub fn bit(&mut self, prob: &mut u16, bit: u32) {
        let bound = (self.range >> 11) * (*prob as u32);
        if bit == 0 {
            self.range = bound;
            *prob += (0x800 - *prob) >> 5;
        } else {
            self.low += bound as u64;
            self.range -= bound;
            *prob -= *prob >> 5;
        }
        self.note_boundary(0);
        self.normalize();
    }

    pub fn direct(&mut self, value: u32, nbits: u32) {
        for i in (0..nbits).rev() {
            self.range >>= 1;
            self.note_boundary(1);
            if (value >> i) & 1 != 0 {
                self.low += self.range as u64;
            }
            self.normalize();
        }
    }

    fn tree(&mut self, probs: &mut [u16], nbits: u32, value: u32) {
        let mut m = 1usize;
        for i in (0..nbits).rev() {
            let b = (value >> i) & 1;
            self.bit(&mut probs[m], b);
            m = (m << 1) | b as usize;
        }
    }

    fn rtree(&mut self, probs: &mut [u16], base: usize, nbits: u32, value: u32) {
        let mut m = 1usize;
        for i in 0..nbits {
            let b = (value >> i) & 1;
            self.bit(&mut probs[base + m], b);
            m = (m << 1) | b as usize;
        }
    }

    /// Flush: after this `out` holds the complete payload.
    pub fn finish(&mut self) {
        for _ in 0..5 {
            self.shift_low();
        }
    }

    /// current range register (after normalisation)
    pub fn range(&self) -> u32 {
        self.range
    }

    /// Bytes an eager decoder has consumed so far (preamble + one per shift).
    pub fn decoder_consumed(&self) -> u64 {
        5 + self.norms
    }
}

/// The range register alone, walked over read-only probabilities (searches).
#[derive(Clone, Copy)]
pub struct RangeWalk {
    pub range: u32,
}

impl RangeWalk {
    #[inline]
    pub fn bit(&mut self, p: u16, bit: u32) {
        let bound = (self.range >> 11) * (p as u32);
        if bit == 0 {
            self.range = bound;
        } else {
            self.range -= bound;
        }
        while self.range < 0x0100_0000 {
            self.range <<= 8;
        }
    }
    pub fn tree(&mut self, probs: &[u16], nbits: u32, value: u32) {
        let mut m = 1usize;
        for i in (0..nbits).rev() {
            let b = (value >> i) & 1;
            self.bit(probs[m], b);
            m = (m << 1) | b as usize;
        }
    }
}

// ---------------------------------------------------------------------------
// Symbol encoder

#[derive(Clone, Copy, Debug, PartialEq, Eq)]
pub struct SymRecord {
    /// input bytes an eager decoder has consumed once this symbol is decoded
    pub consumed: u64,
    /// bytes produced (since the start of this coder run) after this symbol
    pub produced: u64,
}

#[derive(Debug, Clone, PartialEq, Eq)]
pub enum EncodeError {
    /// copy refers before the start of the history (index of the symbol)
    BadRef(usize),
}

/// Encodes symbols against `hist` (history since the last dictionary reset,
/// extended in place). `pos_base` is the value of the decoder's position
/// counter when `hist` was empty, i.e. 0 (lzma-rs and liblzma both count
/// positions from the last dictionary reset).
pub struct Encoder<'a> {
    pub model: &'a mut Model,
    pub rc: RcEnc,
    pub hist: &'a mut Vec<u8>,
    pub table: Vec<SymRecord>,
    start_len: usize,
    /// when true, copies with an invalid distance are encoded anyway and
    /// fabricate nothing in `hist` (used to build rejecting streams)
    pub allow_bad_ref: bool,
    /// with `allow_bad_ref`: append this byte `len` times for an invalid copy,
    /// i.e. keep coding consistently with what a decoder *without* the
    /// distance guard (reading zeros / stale bytes) would see afterwards
    pub fabricate: Option<u8>,
}

impl<'a> Encoder<'a> {
    pub fn new(model: &'a mut Model, hist: &'a mut Vec<u8>) -> Self {
        let start_len = hist.len();
        Encoder {
            model,
            rc: RcEnc::new(),
            hist,
            table: Vec::new(),
            start_len,
            allow_bad_ref: false,
            fabricate: None,
        }
    }

    fn encode_len(rc: &mut RcEnc, lp: &mut LenProbs, pos_state: usize, len: u32) {
        let l = len - 2;
        if l < 8 {
            rc.bit(&mut lp.choice, 0);
            rc.tree(&mut lp.low[pos_state], 3, l);
        } else if l < 16 {
            rc.bit(&mut lp.choice, 1);
            rc.bit(&mut lp.choice2, 0);
            rc.tree(&mut lp.mid[pos_state], 3, l - 8);
        } else {
            rc.bit(&mut lp.choice, 1);
            rc.bit(&mut lp.choice2, 1);
            rc.tree(&mut lp.high, 8, l - 16);
        }
    }

    /// Range register after the header bits of a NEW match of this length at the current
    /// position (is_match = 1, is_rep = 0, length), without touching anything. Exact,
    /// because no probability is used twice within one symbol.
    pub fn trial_match_len(&self, len: u32) -> u32 {
        let pos = self.hist.len() as u64;
        let pos_state = (pos & ((1u64 << self.model.props.pb) - 1)) as usize;
        let m = &*self.model;
        let mut w = RangeWalk { range: self.rc.range };
        w.bit(m.is_match[m.state][pos_state], 1);
        w.bit(m.is_rep[m.state], 0);
        let lp = &m.len;
        let l = len - 2;
        if l < 8 {
            w.bit(lp.choice, 0);
            w.tree(&lp.low[pos_state], 3, l);
        } else if l < 16 {
            w.bit(lp.choice, 1);
            w.bit(lp.choice2, 0);
            w.tree(&lp.mid[pos_state], 3, l - 8);
        } else {
            w.bit(lp.choice, 1);
            w.bit(lp.choice2, 1);
            w.tree(&lp.high, 8, l - 16);
        }
        w.range
    }

    /// Continue `trial_match_len`: range register after the 6 distance-slot bits.
    pub fn trial_slot(&self, range_after_len: u32, len: u32, slot: u32) -> u32 {
        let len_state = std::cmp::min(len - 2, 3) as usize;
        let mut w = RangeWalk { range: range_after_len };
        w.tree(&self.model.pos_slot[len_state], 6, slot);
        w.range
    }

    fn encode_distance(&mut self, d: u32, len: u32) {
        let len_state = std::cmp::min(len - 2, 3) as usize;
        let slot = dist_slot(d);
        let m = &mut *self.model;
        self.rc.tree(&mut m.pos_slot[len_state], 6, slot);
        if slot >= 4 {
            let footer = (slot >> 1) - 1;
            let base = (2 | (slot & 1)) << footer;
            let reduced = d - base;
            if slot < 14 {
                self.rc
                    .rtree(&mut m.pos_spec, (base - slot) as usize, footer, reduced);
            } else {
                self.rc.direct(reduced >> 4, footer - 4);
                self.rc.rtree(&mut m.align, 0, 4, reduced & 0xF);
            }
        }
    }

    fn byte_back(&self, dist: u64) -> Option<u8> {
        let n = self.hist.len() as u64;
        if dist == 0 || dist > n {
            None
        } else {
            Some(self.hist[(n - dist) as usize])
        }
    }

    fn copy(&mut self, dist: u64, len: u32) -> bool {
        let n = self.hist.len() as u64;
        if dist == 0 || dist > n {
            if self.allow_bad_ref {
                if let Some(f) = self.fabricate {
                    for _ in 0..len {
                        self.hist.push(f);
                    }
                }
            }
            return false;
        }
        let mut from = (n - dist) as usize;
        for _ in 0..len {
            let b = self.hist[from];
            self.hist.push(b);
            from += 1;
        }
        true
    }

    /// Encode one symbol. Returns false if the symbol's copy was an invalid
    /// reference (only possible with `allow_bad_ref`; nothing is appended then).
    pub fn push(&mut self, s: &Sym) -> Result<bool, EncodeError> {
        let idx = self.table.len();
        let pos = self.hist.len() as u64;
        let pos_state = (pos & ((1u64 << self.model.props.pb) - 1)) as usize;
        let st = self.model.state;
        let mut ok = true;
        match *s {
            Sym::Lit(b) => {
                let prev = self.hist.last().copied().unwrap_or(0);
                let base = self.model.lit_base(pos, prev);
                // A matched literal needs the byte at rep0; if that reference
                // is invalid the stream cannot be decoded - treat as bad ref.
                let match_byte = if st >= 7 {
                    match self.byte_back(self.model.reps[0] as u64 + 1) {
                        Some(x) => Some(x),
                        None => {
                            if !self.allow_bad_ref {
                                return Err(EncodeError::BadRef(idx));
                            }
                            ok = false;
                            Some(0)
                        }
                    }
                } else {
                    None
                };
                let m = &mut *self.model;
                self.rc.bit(&mut m.is_match[st][pos_state], 0);
                let probs = &mut m.lit[base..base + 0x300];
                let mut sym = 1usize;
                let mut i = 8;
                if let Some(mb) = match_byte {
                    let mut mb = mb as usize;
                    while i > 0 {
                        i -= 1;
                        let match_bit = (mb >> 7) & 1;
                        mb <<= 1;
                        let bit = ((b >> i) & 1) as usize;
                        self.rc
                            .bit(&mut probs[((1 + match_bit) << 8) + sym], bit as u32);
                        sym = (sym << 1) | bit;
                        if match_bit != bit {
                            break;
                        }
                    }
                }
                while i > 0 {
                    i -= 1;
                    let bit = ((b >> i) & 1) as usize;
                    self.rc.bit(&mut probs[sym], bit as u32);
                    sym = (sym << 1) | bit;
                }
                if ok || self.fabricate.is_some() {
                    self.hist.push(b);
                }
                m.state = state_after_lit(st);
            }
            Sym::Match { dist, len } => {
                assert!((2..=273).contains(&len) && dist >= 1);
                {
                    let m = &mut *self.model;
                    self.rc.bit(&mut m.is_match[st][pos_state], 1);
                    self.rc.bit(&mut m.is_rep[st], 0);
                    Self::encode_len(&mut self.rc, &mut m.len, pos_state, len);
                }
                self.encode_distance(dist - 1, len);
                let m = &mut *self.model;
                m.reps = [dist - 1, m.reps[0], m.reps[1], m.reps[2]];
                m.state = state_after_match(st);
                if !self.copy(dist as u64, len) {
                    if !self.allow_bad_ref {
                        return Err(EncodeError::BadRef(idx));
                    }
                    ok = false;
                }
            }
            Sym::ShortRep => {
                let m = &mut *self.model;
                self.rc.bit(&mut m.is_match[st][pos_state], 1);
                self.rc.bit(&mut m.is_rep[st], 1);
                self.rc.bit(&mut m.is_rep_g0[st], 0);
                self.rc.bit(&mut m.is_rep0_long[st][pos_state], 0);
                m.state = state_after_shortrep(st);
                let d = m.reps[0] as u64 + 1;
                if !self.copy(d, 1) {
                    if !self.allow_bad_ref {
                        return Err(EncodeError::BadRef(idx));
                    }
                    ok = false;
                }
            }
            Sym::Rep { idx: ri, len } => {
                assert!((2..=273).contains(&len) && ri < 4);
                let m = &mut *self.model;
                self.rc.bit(&mut m.is_match[st][pos_state], 1);
                self.rc.bit(&mut m.is_rep[st], 1);
                if ri == 0 {
                    self.rc.bit(&mut m.is_rep_g0[st], 0);
                    self.rc.bit(&mut m.is_rep0_long[st][pos_state], 1);
                } else {
                    self.rc.bit(&mut m.is_rep_g0[st], 1);
                    if ri == 1 {
                        self.rc.bit(&mut m.is_rep_g1[st], 0);
                    } else {
                        self.rc.bit(&mut m.is_rep_g1[st], 1);
                        self.rc.bit(&mut m.is_rep_g2[st], (ri == 3) as u32);
                    }
                }
                let i = ri as usize;
                let d = m.reps[i];
                for k in (0..i).rev() {
                    m.reps[k + 1] = m.reps[k];
                }
                m.reps[0] = d;
                Self::encode_len(&mut self.rc, &mut m.rep_len, pos_state, len);
                m.state = state_after_rep(st);
                if !self.copy(d as u64 + 1, len) {
                    if !self.allow_bad_ref {
                        return Err(EncodeError::BadRef(idx));
                    }
                    ok = false;
                }
            }
            Sym::Eos => {
                {
                    let m = &mut *self.model;
                    self.rc.bit(&mut m.is_match[st][pos_state], 1);
                    self.rc.bit(&mut m.is_rep[st], 0);
                    Self::encode_len(&mut self.rc, &mut m.len, pos_state, EOS_LEN.with(|l| l.get()));
                }
                self.encode_distance(EOS_REP0, EOS_LEN.with(|l| l.get()));
                let m = &mut *self.model;
                m.reps = [EOS_REP0, m.reps[0], m.reps[1], m.reps[2]];
                m.state = state_after_match(st);
            }
        }
        self.table.push(SymRecord {
            consumed: self.rc.decoder_consumed(),
            produced: (self.hist.len() - self.start_len) as u64,
        });
        Ok(ok)
    }

    pub fn push_all(&mut self, prog: &[Sym]) -> Result<(), EncodeError> {
        for s in prog {
            self.push(s)?;
        }
        Ok(())
    }

    /// Flush the range coder and return (payload, per-symbol table, stats).
    pub fn finish(mut self) -> (Vec<u8>, Vec<SymRecord>, RcStats) {
        self.rc.finish();
        let stats = RcStats {
            carries: self.rc.carries,
            max_pending: self.rc.max_pending,
        };
        (self.rc.out, self.table, stats)
    }
}

#[derive(Clone, Copy, Debug, Default)]
pub struct RcStats {
    pub carries: u64,
    pub max_pending: u64,
}

/// Encode a self-contained program (fresh model, fresh history).
thread_local! {
    /// length field of the end marker the encoder writes (any length 2..=273 is a marker: only the
    /// distance 2^32 - 1 makes it one); 2 unless a generator sets it for the stream it is building
    pub static EOS_LEN: std::cell::Cell<u32> = const { std::cell::Cell::new(2) };
}

/// sets the end marker's length field for every stream encoded on this thread until the guard
/// is dropped
pub struct EosLenGuard;
impl Drop for EosLenGuard {
    fn drop(&mut self) {
        EOS_LEN.with(|l| l.set(2));
    }
}
pub fn with_eos_len(len: u32) -> EosLenGuard {
    EOS_LEN.with(|l| l.set(len.clamp(2, 273)));
    EosLenGuard
}

/// `encode_program` with the end marker's length field set to `eos_len`
pub fn encode_program_eos_len(prog: &[Sym], props: Props, eos_len: u32) -> Result<(Vec<u8>, Vec<SymRecord>, Vec<u8>), EncodeError> {
    EOS_LEN.with(|l| l.set(eos_len));
    let r = encode_program(prog, props);
    EOS_LEN.with(|l| l.set(2));
    r
}

pub fn encode_program(
    prog: &[Sym],
    props: Props,
) -> Result<(Vec<u8>, Vec<SymRecord>, Vec<u8>), EncodeError> {
    let mut model = Model::new(props);
    let mut hist = Vec::new();
    let mut enc = Encoder::new(&mut model, &mut hist);
    enc.push_all(prog)?;
    let (payload, table, _) = enc.finish();
    Ok((payload, table, hist))
}

// ---------------------------------------------------------------------------
// Range decoder + symbol decoder

#[derive(Clone, Copy, Debug, PartialEq, Eq)]
pub enum DecStop {
    /// `limit` bytes (since the start of this run) were produced exactly.
    SizeReached,
    /// The symbol that crossed `limit` produced more than `limit`.
    Overshoot,
    /// End marker decoded. `code_zero`: range decoder code was 0 afterwards.
    Marker { code_zero: bool },
    /// No limit in effect, input ended exactly at a symbol boundary and the
    /// range decoder's code is 0 (a flushed stream without end marker).
    CleanEnd,
    /// A symbol needed input bytes that are not there (or the 5-byte preamble
    /// is incomplete).
    Truncated,
    /// A copy referred before the start of the history / beyond the dictionary.
    BadRef,
}

pub struct RcDec<'a> {
    pub input: &'a [u8],
    pub pos: usize,
    pub range: u32,
    pub code: u32,
    pub eof_hit: bool,
}

impl<'a> RcDec<'a> {
    pub fn new(input: &'a [u8]) -> Option<Self> {
        if input.len() < 5 {
            return None;
        }
        // first byte is ignored by the format (lzma-rs ignores it too)
        let code = u32::from_be_bytes([input[1], input[2], input[3], input[4]]);
        Some(RcDec {
            input,
            pos: 5,
            range: 0xFFFF_FFFF,
            code,
            eof_hit: false,
        })
    }

    // eager normalisation: one byte as soon as range drops below 2^24
    fn normalize(&mut self) {
        if self.range < 0x0100_0000 {
            self.range <<= 8;
            let b = if self.pos < self.input.len() {
                let b = self.input[self.pos];
                self.pos += 1;
                b
            } else {
                self.eof_hit = true;
                0
            };
            self.code = (self.code << 8) | b as u32;
        }
    }

    fn bit(&mut self, prob: &mut u16) -> u32 {
        let bound = (self.range >> 11) * (*prob as u32);
        if self.code < bound {
            self.range = bound;
            *prob += (0x800 - *prob) >> 5;
            self.normalize();
            0
        } else {
            self.code -= bound;
            self.range -= bound;
            *prob -= *prob >> 5;
            self.normalize();
            1
        }
    }

    fn direct(&mut self, nbits: u32) -> u32 {
        let mut r = 0u32;
        for _ in 0..nbits {
            self.range >>= 1;
            let b = if self.code >= self.range {
                self.code -= self.range;
                1
            } else {
                0
            };
            r = (r << 1) | b;
            self.normalize();
        }
        r
    }

    fn tree(&mut self, probs: &mut [u16], nbits: u32) -> u32 {
        let mut m = 1usize;
        for _ in 0..nbits {
            let b = self.bit(&mut probs[m]);
            m = (m << 1) | b as usize;
        }
        (m as u32) - (1 << nbits)
    }

    fn rtree(&mut self, probs: &mut [u16], base: usize, nbits: u32) -> u32 {
        let mut m = 1usize;
        let mut r = 0u32;
        for i in 0..nbits {
            let b = self.bit(&mut probs[base + m]);
            m = (m << 1) | b as usize;
            r |= b << i;
        }
        r
    }
}

pub struct DecodeOutcome {
    pub stop: DecStop,
    /// bytes of input consumed (eager) when decoding stopped
    pub consumed: usize,
    /// per completed symbol
    pub table: Vec<SymRecord>,
    /// the decoded symbols
    pub syms: Vec<Sym>,
    /// produced byte count at the last completed symbol
    pub produced: u64,
}

/// Spec decoder. Appends to `hist` (history since the last dictionary reset).
/// `limit`: stop once this many bytes were produced in this run (None = run to
/// the marker / end of input). `dict_size`: distances above it are BadRef.
pub fn decode(
    model: &mut Model,
    hist: &mut Vec<u8>,
    input: &[u8],
    limit: Option<u64>,
    dict_size: u64,
) -> DecodeOutcome {
    let start_len = hist.len();
    let mut table = Vec::new();
    let mut syms = Vec::new();
    let mut rc = match RcDec::new(input) {
        Some(rc) => rc,
        None => {
            return DecodeOutcome {
                stop: DecStop::Truncated,
                consumed: input.len(),
                table,
                syms,
                produced: 0,
            }
        }
    };
    let stop;
    loop {
        let produced = (hist.len() - start_len) as u64;
        if let Some(l) = limit {
            if produced >= l {
                stop = if produced == l {
                    DecStop::SizeReached
                } else {
                    DecStop::Overshoot
                };
                break;
            }
        }
        if limit.is_none() && rc.pos >= input.len() && rc.code == 0 {
            // Symbol boundary, all input consumed, coder finished: this is
            // where a flushed stream without end marker ends.
            stop = DecStop::CleanEnd;
            break;
        }
        let pos = hist.len() as u64;
        let pos_state = (pos & ((1u64 << model.props.pb) - 1)) as usize;
        let st = model.state;
        let save_len = hist.len();
        let sym;
        let mut bad = false;
        if rc.bit(&mut model.is_match[st][pos_state]) == 0 {
            let prev = hist.last().copied().unwrap_or(0);
            let base = model.lit_base(pos, prev);
            let mut s = 1usize;
            if st >= 7 {
                let d = model.reps[0] as u64 + 1;
                if d > hist.len() as u64 || d > dict_size {
                    stop = DecStop::BadRef;
                    break;
                }
                let mut mb = hist[hist.len() - d as usize] as usize;
                let probs = &mut model.lit[base..base + 0x300];
                while s < 0x100 {
                    let match_bit = (mb >> 7) & 1;
                    mb <<= 1;
                    let b = rc.bit(&mut probs[((1 + match_bit) << 8) + s]) as usize;
                    s = (s << 1) | b;
                    if match_bit != b {
                        break;
                    }
                }
            }
            let probs = &mut model.lit[base..base + 0x300];
            while s < 0x100 {
                let b = rc.bit(&mut probs[s]) as usize;
                s = (s << 1) | b;
            }
            let byte = (s - 0x100) as u8;
            hist.push(byte);
            model.state = state_after_lit(st);
            sym = Sym::Lit(byte);
        } else if rc.bit(&mut model.is_rep[st]) == 0 {
            let len = decode_len(&mut rc, &mut model.len, pos_state);
            let d = decode_distance(&mut rc, model, len);
            model.reps = [d, model.reps[0], model.reps[1], model.reps[2]];
            model.state = state_after_match(st);
            if d == EOS_REP0 {
                if rc.eof_hit {
                    stop = DecStop::Truncated;
                } else {
                    syms.push(Sym::Eos);
                    table.push(SymRecord {
                        consumed: rc.pos as u64,
                        produced,
                    });
                    stop = DecStop::Marker {
                        code_zero: rc.code == 0,
                    };
                }
                break;
            }
            sym = Sym::Match { dist: d + 1, len };
            if !copy(hist, d as u64 + 1, len, dict_size) {
                bad = true;
            }
        } else if rc.bit(&mut model.is_rep_g0[st]) == 0 {
            if rc.bit(&mut model.is_rep0_long[st][pos_state]) == 0 {
                model.state = state_after_shortrep(st);
                sym = Sym::ShortRep;
                if !copy(hist, model.reps[0] as u64 + 1, 1, dict_size) {
                    bad = true;
                }
            } else {
                let len = decode_len(&mut rc, &mut model.rep_len, pos_state);
                model.state = state_after_rep(st);
                sym = Sym::Rep { idx: 0, len };
                if !copy(hist, model.reps[0] as u64 + 1, len, dict_size) {
                    bad = true;
                }
            }
        } else {
            let idx = if rc.bit(&mut model.is_rep_g1[st]) == 0 {
                1
            } else if rc.bit(&mut model.is_rep_g2[st]) == 0 {
                2
            } else {
                3
            };
            let d = model.reps[idx];
            for k in (0..idx).rev() {
                model.reps[k + 1] = model.reps[k];
            }
            model.reps[0] = d;
            let len = decode_len(&mut rc, &mut model.rep_len, pos_state);
            model.state = state_after_rep(st);
            sym = Sym::Rep {
                idx: idx as u8,
                len,
            };
            if !copy(hist, d as u64 + 1, len, dict_size) {
                bad = true;
            }
        }
        if rc.eof_hit {
            // the symbol needed bytes that are not there
            hist.truncate(save_len);
            stop = DecStop::Truncated;
            break;
        }
        if bad {
            hist.truncate(save_len);
            stop = DecStop::BadRef;
            break;
        }
        syms.push(sym);
        table.push(SymRecord {
            consumed: rc.pos as u64,
            produced: (hist.len() - start_len) as u64,
        });
    }
    DecodeOutcome {
        stop,
        consumed: rc.pos,
        produced: table.last().map(|r| r.produced).unwrap_or(0),
        table,
        syms,
    }
}

fn copy(hist: &mut Vec<u8>, dist: u64, len: u32, dict_size: u64) -> bool {
    let n = hist.len() as u64;
    if dist > n || dist > dict_size {
        return false;
    }
    let mut from = (n - dist) as usize;
    for _ in 0..len {
        let b = hist[from];
        hist.push(b);
        from += 1;
    }
    true
}

fn decode_len(rc: &mut RcDec, lp: &mut LenProbs, pos_state: usize) -> u32 {
    if rc.bit(&mut lp.choice) == 0 {
        2 + rc.tree(&mut lp.low[pos_state], 3)
    } else if rc.bit(&mut lp.choice2) == 0 {
        10 + rc.tree(&mut lp.mid[pos_state], 3)
    } else {
        18 + rc.tree(&mut lp.high, 8)
    }
}

fn decode_distance(rc: &mut RcDec, model: &mut Model, len: u32) -> u32 {
    let len_state = std::cmp::min(len - 2, 3) as usize;
    let slot = rc.tree(&mut model.pos_slot[len_state], 6);
    if slot < 4 {
        return slot;
    }
    let footer = (slot >> 1) - 1;
    let base = (2 | (slot & 1)) << footer;
    if slot < 14 {
        base + rc.rtree(&mut model.pos_spec, (base - slot) as usize, footer)
    } else {
        let hi = rc.direct(footer - 4);
        let lo = rc.rtree(&mut model.align, 0, 4);
        base.wrapping_add(hi << 4).wrapping_add(lo)
    }
}

//! LZMA2 chunk programs: writer (with a map of where each chunk sits) and a
//! strict reader implementing the rules both liblzma and the LZMA SDK enforce.

use super::lzma::{decode, DecStop, EncodeError, Encoder, Model, Props, SymRecord};
use super::program::Sym;

#[derive(Clone, Debug)]
pub enum Chunk {
    /// control 0x01 (reset_dict) or 0x02
    Raw { reset_dict: bool, data: Vec<u8> },
    /// control 0x80 | reset<<5 | size bits. reset: 0 none, 1 state, 2 state +
    /// new props, 3 state + props + dictionary.
    Lzma {
        reset: u8,
        props: Props,
        prog: Vec<Sym>,
    },
}

impl Chunk {
    pub fn class(&self) -> usize {
        match self {
            Chunk::Raw { reset_dict, .. } => {
                if *reset_dict {
                    0
                } else {
                    1
                }
            }
            Chunk::Lzma { reset, .. } => 2 + *reset as usize,
        }
    }
    pub fn short(&self) -> String {
        match self {
            Chunk::Raw { reset_dict, data } => {
                format!("raw{}[{}]", if *reset_dict { "+D" } else { "" }, data.len())
            }
            Chunk::Lzma { reset, props, prog } => format!(
                "lzma(r{},lc{}lp{}pb{})[{} syms]",
                reset,
                props.lc,
                props.lp,
                props.pb,
                prog.len()
            ),
        }
    }
}

pub const CLASS_NAMES: [&str; 6] = ["0x01", "0x02", "0x80", "0xA0", "0xC0", "0xE0"];

#[derive(Clone, Debug)]
pub struct ChunkInfo {
    /// offset of the control byte
    pub start: usize,
    /// offset one past the chunk's last byte
    pub end: usize,
    /// offset of the first payload byte (after sizes / props)
    pub payload_start: usize,
    pub control: u8,
    pub unpacked: usize,
    pub packed: usize,
    pub has_props: bool,
    /// per-symbol table for LZMA chunks (consumed relative to payload_start)
    pub table: Vec<SymRecord>,
    pub syms: Vec<Sym>,
    /// output length (whole stream) before / after this chunk
    pub out_before: usize,
    pub out_after: usize,
}

#[derive(Clone, Debug, Default)]
pub struct Written {
    pub bytes: Vec<u8>,
    pub chunks: Vec<ChunkInfo>,
    /// the bytes the format defines for this stream
    pub output: Vec<u8>,
    /// the largest distance any copy in the stream uses: the dictionary size a container has to
    /// announce for it (a dictionary smaller than the OUTPUT is fine as long as it covers this)
    pub need_dict: u64,
}

#[derive(Debug, Clone, PartialEq, Eq)]
pub enum WriteError {
    Encode(usize, EncodeError),
    TooBig(usize),
    Empty(usize),
}

/// Serialise a chunk sequence (terminated with the 0x00 end byte).
/// The LZMA state (model) is carried across chunks exactly as the format says.
pub fn write(chunks: &[Chunk]) -> Result<Written, WriteError> {
    write_with(chunks, false)
}

/// `allow_bad_ref`: encode copies with invalid distances anyway, coding the
/// rest as a guard-less decoder fabricating zeros would see it (for streams
/// that must be rejected).
pub fn write_with(chunks: &[Chunk], allow_bad_ref: bool) -> Result<Written, WriteError> {
    let mut w = Written::default();
    let mut model = Model::new(Props::new(0, 0, 0));
    let mut hist: Vec<u8> = Vec::new();
    for (ci, c) in chunks.iter().enumerate() {
        let start = w.bytes.len();
        let out_before = w.output.len();
        match c {
            Chunk::Raw { reset_dict, data } => {
                if data.is_empty() {
                    return Err(WriteError::Empty(ci));
                }
                if data.len() > 0x10000 {
                    return Err(WriteError::TooBig(ci));
                }
                if *reset_dict {
                    hist.clear();
                }
                let control = if *reset_dict { 1 } else { 2 };
                w.bytes.push(control);
                w.bytes
                    .extend_from_slice(&((data.len() - 1) as u16).to_be_bytes());
                let payload_start = w.bytes.len();
                w.bytes.extend_from_slice(data);
                hist.extend_from_slice(data);
                w.output.extend_from_slice(data);
                w.chunks.push(ChunkInfo {
                    start,
                    end: w.bytes.len(),
                    payload_start,
                    control,
                    unpacked: data.len(),
                    packed: data.len(),
                    has_props: false,
                    table: Vec::new(),
                    syms: Vec::new(),
                    out_before,
                    out_after: w.output.len(),
                });
            }
            Chunk::Lzma { reset, props, prog } => {
                if *reset == 3 {
                    hist.clear();
                }
                if *reset >= 2 {
                    model.reset(*props);
                } else if *reset == 1 {
                    let p = model.props;
                    model.reset(p);
                }
                let before = hist.len();
                let mut enc = Encoder::new(&mut model, &mut hist);
                if allow_bad_ref {
                    enc.allow_bad_ref = true;
                    enc.fabricate = Some(0);
                }
                let mut need = w.need_dict;
                for sym in prog {
                    let d = match sym {
                        Sym::Match { dist, .. } => *dist as u64,
                        Sym::ShortRep => enc.model.reps[0] as u64 + 1,
                        Sym::Rep { idx, .. } => enc.model.reps[*idx as usize] as u64 + 1,
                        _ => 0,
                    };
                    need = need.max(d);
                    enc.push(sym).map_err(|e| WriteError::Encode(ci, e))?;
                }
                w.need_dict = need;
                let (payload, table, _) = enc.finish();
                let unpacked = hist.len() - before;
                if unpacked == 0 {
                    return Err(WriteError::Empty(ci));
                }
                if unpacked > (1 << 21) || payload.len() > 0x10000 {
                    return Err(WriteError::TooBig(ci));
                }
                let control = 0x80 | (reset << 5) | (((unpacked - 1) >> 16) as u8);
                w.bytes.push(control);
                w.bytes
                    .extend_from_slice(&(((unpacked - 1) & 0xFFFF) as u16).to_be_bytes());
                w.bytes
                    .extend_from_slice(&((payload.len() - 1) as u16).to_be_bytes());
                if *reset >= 2 {
                    w.bytes.push(props.byte());
                }
                let payload_start = w.bytes.len();
                w.bytes.extend_from_slice(&payload);
                w.output.extend_from_slice(&hist[before..]);
                w.chunks.push(ChunkInfo {
                    start,
                    end: w.bytes.len(),
                    payload_start,
                    control,
                    unpacked,
                    packed: payload.len(),
                    has_props: *reset >= 2,
                    table,
                    syms: prog.clone(),
                    out_before,
                    out_after: w.output.len(),
                });
            }
        }
    }
    w.bytes.push(0);
    Ok(w)
}

#[derive(Debug, Clone, PartialEq, Eq)]
pub enum ReadError {
    /// input ended before the end byte / inside a chunk header or payload
    Truncated,
    BadControl(u8),
    BadProps(u8),
    /// first chunk without dictionary reset, or LZMA chunk without properties
    /// after a dictionary reset (liblzma / SDK rule; lzma-rs is laxer)
    NeedsReset,
    /// the chunk payload did not decode to exactly `unpacked` bytes
    ChunkData(DecStop),
    /// payload decoded but did not use all `packed` bytes or ended with a
    /// non-zero code (rejected by liblzma, tolerated by lzma-rs)
    PackedNotDrained,
}

pub struct ReadOk {
    pub output: Vec<u8>,
    /// bytes consumed, including the end byte
    pub consumed: usize,
    pub chunks: usize,
}

fn take<'a>(input: &'a [u8], pos: &mut usize, n: usize) -> Result<&'a [u8], ReadError> {
    if *pos + n > input.len() {
        return Err(ReadError::Truncated);
    }
    let s = &input[*pos..*pos + n];
    *pos += n;
    Ok(s)
}

/// Strict LZMA2 reader. `strict_reset` enforces the needs-reset rules,
/// `strict_drain` the exact-consumption rule.
pub fn read(input: &[u8], strict_reset: bool, strict_drain: bool) -> Result<ReadOk, ReadError> {
    let mut pos = 0usize;
    let mut out: Vec<u8> = Vec::new();
    let mut hist: Vec<u8> = Vec::new();
    let mut model = Model::new(Props::new(0, 0, 0));
    let mut need_dict_reset = true;
    let mut need_props = true;
    let mut chunks = 0;
    loop {
        let control = take(input, &mut pos, 1)?[0];
        if control == 0 {
            out.extend_from_slice(&hist);
            return Ok(ReadOk {
                output: out,
                consumed: pos,
                chunks,
            });
        }
        chunks += 1;
        if control >= 0xE0 || control == 1 {
            need_props = true;
            need_dict_reset = false;
            out.extend_from_slice(&hist);
            hist.clear();
        } else if need_dict_reset && strict_reset {
            return Err(ReadError::NeedsReset);
        }
        if control >= 0x80 {
            let b = take(input, &mut pos, 4)?;
            let unpacked =
                ((((control & 0x1F) as usize) << 16) | ((b[0] as usize) << 8) | b[1] as usize) + 1;
            let packed = (((b[2] as usize) << 8) | b[3] as usize) + 1;
            if control >= 0xC0 {
                let pbyte = take(input, &mut pos, 1)?[0];
                let props = Props::from_byte(pbyte).ok_or(ReadError::BadProps(pbyte))?;
                if props.lc + props.lp > 4 {
                    return Err(ReadError::BadProps(pbyte));
                }
                model.reset(props);
                need_props = false;
            } else if need_props && strict_reset {
                return Err(ReadError::NeedsReset);
            } else if control >= 0xA0 {
                let p = model.props;
                model.reset(p);
            }
            let avail = std::cmp::min(packed, input.len() - pos);
            let payload = &input[pos..pos + avail];
            let r = decode(&mut model, &mut hist, payload, Some(unpacked as u64), u64::MAX);
            match r.stop {
                DecStop::SizeReached => {}
                DecStop::Truncated if avail < packed => return Err(ReadError::Truncated),
                other => return Err(ReadError::ChunkData(other)),
            }
            if avail < packed {
                // decoded fine but the declared packed bytes are not all there
                return Err(ReadError::Truncated);
            }
            if strict_drain && r.consumed != packed {
                return Err(ReadError::PackedNotDrained);
            }
            pos += packed;
        } else {
            if control > 2 {
                return Err(ReadError::BadControl(control));
            }
            let b = take(input, &mut pos, 2)?;
            let n = (((b[0] as usize) << 8) | b[1] as usize) + 1;
            let data = take(input, &mut pos, n)?;
            hist.extend_from_slice(data);
        }
    }
}

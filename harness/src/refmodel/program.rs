//! Symbol programs and their meaning.
//!
//! `interpret` is the ground truth for "the bytes the format defines": plain
//! copying in an unbounded Vec, no window, no wrap, no probabilities.

#[derive(Clone, Copy, Debug, PartialEq, Eq, Hash)]
pub enum Sym {
    Lit(u8),
    /// `dist` is the real distance (1 = previous byte), `len` in 2..=273.
    Match { dist: u32, len: u32 },
    ShortRep,
    /// Repeat of the idx-th most recently used distance, `len` in 2..=273.
    Rep { idx: u8, len: u32 },
    Eos,
}

impl Sym {
    pub fn kind_index(&self) -> usize {
        match self {
            Sym::Lit(_) => 0,
            Sym::Match { .. } => 1,
            Sym::ShortRep => 2,
            Sym::Rep { idx, .. } => 3 + *idx as usize,
            Sym::Eos => 7,
        }
    }
    pub fn short(&self) -> String {
        match self {
            Sym::Lit(b) => format!("L{:02x}", b),
            Sym::Match { dist, len } => format!("M{}:{}", dist, len),
            Sym::ShortRep => "S".to_string(),
            Sym::Rep { idx, len } => format!("R{}:{}", idx, len),
            Sym::Eos => "E".to_string(),
        }
    }
}

pub fn program_short(p: &[Sym], max: usize) -> String {
    let mut s = String::new();
    for (i, x) in p.iter().enumerate() {
        if i >= max {
            s.push_str(&format!(" ..(+{})", p.len() - max));
            break;
        }
        if i > 0 {
            s.push(' ');
        }
        s.push_str(&x.short());
    }
    s
}

/// State of the interpretation that survives from one program (LZMA2 chunk)
/// to the next: the history since the last dictionary reset and the four
/// most recently used distances (stored as distance - 1, all zero at start).
#[derive(Clone, Debug)]
pub struct Interp {
    pub hist: Vec<u8>,
    pub reps: [u32; 4],
}

#[derive(Clone, Copy, Debug, PartialEq, Eq)]
pub enum InterpStop {
    /// All symbols applied.
    Done,
    /// An end marker was met at this symbol index.
    Eos(usize),
    /// A copy at this symbol index reaches before the start of the history.
    BadRef(usize),
}

impl Default for Interp {
    fn default() -> Self {
        Self::new()
    }
}

impl Interp {
    pub fn new() -> Self {
        Interp {
            hist: Vec::new(),
            reps: [0; 4],
        }
    }

    fn copy(&mut self, dist: u64, len: u32) -> bool {
        if dist == 0 || dist > self.hist.len() as u64 {
            return false;
        }
        let mut from = self.hist.len() - dist as usize;
        for _ in 0..len {
            let b = self.hist[from];
            self.hist.push(b);
            from += 1;
        }
        true
    }

    /// Distance a symbol would use, given the current reps (None for literals / Eos).
    pub fn distance_of(&self, s: &Sym) -> Option<u64> {
        match s {
            Sym::Match { dist, .. } => Some(*dist as u64),
            Sym::ShortRep => Some(self.reps[0] as u64 + 1),
            Sym::Rep { idx, .. } => Some(self.reps[*idx as usize] as u64 + 1),
            _ => None,
        }
    }

    pub fn step(&mut self, s: &Sym) -> bool {
        match *s {
            Sym::Lit(b) => {
                self.hist.push(b);
                true
            }
            Sym::Match { dist, len } => {
                self.reps = [dist - 1, self.reps[0], self.reps[1], self.reps[2]];
                self.copy(dist as u64, len)
            }
            Sym::ShortRep => self.copy(self.reps[0] as u64 + 1, 1),
            Sym::Rep { idx, len } => {
                let i = idx as usize;
                let d = self.reps[i];
                for k in (0..i).rev() {
                    self.reps[k + 1] = self.reps[k];
                }
                self.reps[0] = d;
                self.copy(d as u64 + 1, len)
            }
            Sym::Eos => true,
        }
    }

    pub fn run(&mut self, prog: &[Sym]) -> InterpStop {
        for (i, s) in prog.iter().enumerate() {
            if let Sym::Eos = s {
                return InterpStop::Eos(i);
            }
            if !self.step(s) {
                return InterpStop::BadRef(i);
            }
        }
        InterpStop::Done
    }
}

/// Interpret a self-contained program (fresh history).
pub fn interpret(prog: &[Sym]) -> (Vec<u8>, InterpStop) {
    let mut it = Interp::new();
    let stop = it.run(prog);
    (it.hist, stop)
}

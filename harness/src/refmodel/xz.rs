//! XZ container: a structured description (`XzSpec`) that serialises to bytes
//! plus a layout map, and a strict parser written from xz-file-format 1.0.4.

use super::crc::{crc32, crc64, sha256};
use super::lzma2;

pub const HEADER_MAGIC: [u8; 6] = [0xFD, 0x37, 0x7A, 0x58, 0x5A, 0x00];
pub const FOOTER_MAGIC: [u8; 2] = [0x59, 0x5A];

pub const CHECK_NONE: u8 = 0;
pub const CHECK_CRC32: u8 = 1;
pub const CHECK_CRC64: u8 = 4;
pub const CHECK_SHA256: u8 = 10;

/// Size of the check field for each check ID (xz-file-format 2.1.1.2).
pub fn check_size(id: u8) -> usize {
    match id {
        0 => 0,
        1..=3 => 4,
        4..=6 => 8,
        7..=9 => 16,
        10..=12 => 32,
        _ => 64,
    }
}

pub fn compute_check(id: u8, data: &[u8]) -> Vec<u8> {
    match id {
        CHECK_NONE => vec![],
        CHECK_CRC32 => crc32(data).to_le_bytes().to_vec(),
        CHECK_CRC64 => crc64(data).to_le_bytes().to_vec(),
        CHECK_SHA256 => sha256(data).to_vec(),
        other => {
            // unassigned IDs: the content is unspecified; fill deterministically
            let n = check_size(other);
            let h = sha256(data);
            (0..n).map(|i| h[i % 32] ^ other).collect()
        }
    }
}

/// LZMA2 dictionary size for a filter property byte (0..=40).
pub fn lzma2_dict_size(prop: u8) -> u64 {
    if prop >= 40 {
        return 0xFFFF_FFFF;
    }
    (2 | (prop as u64 & 1)) << (prop / 2 + 11)
}

/// Smallest property byte whose dictionary holds `n` bytes.
pub fn lzma2_dict_prop_for(n: u64) -> u8 {
    (0..=40u8).find(|&p| lzma2_dict_size(p) >= n).unwrap_or(40)
}

pub fn vli_encode(mut v: u64, out: &mut Vec<u8>) {
    loop {
        let b = (v & 0x7F) as u8;
        v >>= 7;
        if v == 0 {
            out.push(b);
            return;
        }
        out.push(b | 0x80);
    }
}

/// Non-minimal encoding of `v` in exactly `n` bytes (n >= minimal length, <= 9).
pub fn vli_encode_padded(mut v: u64, n: usize, out: &mut Vec<u8>) {
    for i in 0..n {
        let b = (v & 0x7F) as u8;
        v >>= 7;
        if i + 1 == n {
            out.push(b);
        } else {
            out.push(b | 0x80);
        }
    }
}

pub fn vli_len(v: u64) -> usize {
    let mut n = 1;
    let mut v = v >> 7;
    while v != 0 {
        n += 1;
        v >>= 7;
    }
    n
}

/// Strict decode: minimal encoding, at most 9 bytes, value < 2^63.
pub fn vli_decode(input: &[u8], pos: &mut usize) -> Result<u64, String> {
    let mut v = 0u64;
    for i in 0..9 {
        if *pos >= input.len() {
            return Err("vli: truncated".into());
        }
        let b = input[*pos];
        *pos += 1;
        if b == 0 && i > 0 {
            return Err("vli: non-minimal".into());
        }
        v |= ((b & 0x7F) as u64) << (7 * i);
        if b & 0x80 == 0 {
            return Ok(v);
        }
    }
    Err("vli: too long".into())
}

#[derive(Clone, Debug)]
pub struct FilterSpec {
    pub id: u64,
    pub props: Vec<u8>,
}

#[derive(Clone, Debug)]
pub struct BlockSpec {
    pub header_size_byte: u8,
    pub flags: u8,
    pub packed_size: Option<u64>,
    pub unpacked_size: Option<u64>,
    pub filters: Vec<FilterSpec>,
    pub header_padding: Vec<u8>,
    /// None = computed
    pub header_crc: Option<u32>,
    pub data: Vec<u8>,
    pub block_padding: Vec<u8>,
    pub check: Vec<u8>,
    /// what this block decodes to (for the oracle; not serialised)
    pub plain: Vec<u8>,
}

#[derive(Clone, Debug)]
pub struct XzSpec {
    pub header_magic: [u8; 6],
    pub header_flags: [u8; 2],
    pub header_crc: Option<u32>,
    pub blocks: Vec<BlockSpec>,
    pub index_indicator: u8,
    pub index_count: u64,
    pub index_records: Vec<(u64, u64)>,
    /// None = computed (zeros to a multiple of four)
    pub index_padding: Option<Vec<u8>>,
    pub index_crc: Option<u32>,
    pub footer_crc: Option<u32>,
    /// stored value; None = computed from the serialised index
    pub backward_size: Option<u32>,
    pub footer_flags: [u8; 2],
    pub footer_magic: [u8; 2],
    pub trailing: Vec<u8>,
}

#[derive(Clone, Debug, PartialEq, Eq)]
pub struct Field {
    pub name: &'static str,
    /// block number for per-block fields, record number for index records
    pub idx: Option<usize>,
    pub start: usize,
    pub end: usize,
}

#[derive(Clone, Debug, Default)]
pub struct Layout {
    pub fields: Vec<Field>,
}

impl Layout {
    fn add(&mut self, name: &'static str, idx: Option<usize>, start: usize, end: usize) {
        if end > start {
            self.fields.push(Field {
                name,
                idx,
                start,
                end,
            });
        }
    }
    pub fn field_at(&self, offset: usize) -> Option<&Field> {
        self.fields
            .iter()
            .find(|f| f.start <= offset && offset < f.end)
    }
    pub fn find(&self, name: &str, idx: Option<usize>) -> Option<&Field> {
        self.fields.iter().find(|f| f.name == name && f.idx == idx)
    }
}

#[derive(Clone, Debug)]
pub struct BlockOpts {
    pub with_packed: bool,
    pub with_unpacked: bool,
    /// extra zero padding in the header, in units of 4 bytes
    pub extra_header_words: usize,
    /// LZMA2 dictionary-size property byte
    pub dict_prop: u8,
}

impl Default for BlockOpts {
    fn default() -> Self {
        BlockOpts {
            with_packed: false,
            with_unpacked: false,
            extra_header_words: 0,
            dict_prop: 0,
        }
    }
}

fn header_body_len(b: &BlockSpec) -> usize {
    // size byte + flags + optional sizes + filters (without padding / crc)
    let mut n = 2;
    if let Some(v) = b.packed_size {
        n += vli_len(v);
    }
    if let Some(v) = b.unpacked_size {
        n += vli_len(v);
    }
    for f in &b.filters {
        n += vli_len(f.id) + vli_len(f.props.len() as u64) + f.props.len();
    }
    n
}

impl BlockSpec {
    /// A valid block holding `data` (an LZMA2 stream decoding to `plain`).
    pub fn new(data: Vec<u8>, plain: Vec<u8>, check_id: u8, o: &BlockOpts) -> BlockSpec {
        Self::with_filters(
            data,
            plain,
            check_id,
            o,
            vec![FilterSpec {
                id: 0x21,
                props: vec![o.dict_prop],
            }],
        )
    }

    pub fn with_filters(
        data: Vec<u8>,
        plain: Vec<u8>,
        check_id: u8,
        o: &BlockOpts,
        filters: Vec<FilterSpec>,
    ) -> BlockSpec {
        let mut flags = (filters.len() as u8 - 1) & 3;
        if o.with_packed {
            flags |= 0x40;
        }
        if o.with_unpacked {
            flags |= 0x80;
        }
        let mut b = BlockSpec {
            header_size_byte: 0,
            flags,
            packed_size: if o.with_packed {
                Some(data.len() as u64)
            } else {
                None
            },
            unpacked_size: if o.with_unpacked {
                Some(plain.len() as u64)
            } else {
                None
            },
            filters,
            header_padding: vec![],
            header_crc: None,
            block_padding: vec![0; (4 - data.len() % 4) % 4],
            check: compute_check(check_id, &plain),
            data,
            plain,
        };
        let body = header_body_len(&b);
        let mut total = body + 4; // + crc
        let pad = (4 - total % 4) % 4 + 4 * o.extra_header_words;
        total += pad;
        let total = std::cmp::min(total, 1024);
        b.header_padding = vec![0; total - body - 4];
        b.header_size_byte = (total / 4 - 1) as u8;
        b
    }

    pub fn header_len(&self) -> usize {
        header_body_len(self) + self.header_padding.len() + 4
    }

    pub fn unpadded_size(&self) -> u64 {
        (self.header_len() + self.data.len() + self.check.len()) as u64
    }
}

impl XzSpec {
    /// A valid single-stream file from ready-made blocks.
    pub fn new(check_id: u8, blocks: Vec<BlockSpec>) -> XzSpec {
        let index_records = blocks
            .iter()
            .map(|b| (b.unpadded_size(), b.plain.len() as u64))
            .collect::<Vec<_>>();
        XzSpec {
            header_magic: HEADER_MAGIC,
            header_flags: [0, check_id],
            header_crc: None,
            index_indicator: 0,
            index_count: blocks.len() as u64,
            index_records,
            blocks,
            index_padding: None,
            index_crc: None,
            footer_crc: None,
            backward_size: None,
            footer_flags: [0, check_id],
            footer_magic: FOOTER_MAGIC,
            trailing: vec![],
        }
    }

    pub fn plain(&self) -> Vec<u8> {
        let mut v = Vec::new();
        for b in &self.blocks {
            v.extend_from_slice(&b.plain);
        }
        v
    }

    pub fn serialize(&self) -> (Vec<u8>, Layout) {
        let mut o: Vec<u8> = Vec::new();
        let mut l = Layout::default();
        // stream header
        o.extend_from_slice(&self.header_magic);
        l.add("header_magic", None, 0, 6);
        o.extend_from_slice(&self.header_flags);
        l.add("header_flags", None, 6, 8);
        let c = self.header_crc.unwrap_or_else(|| crc32(&self.header_flags));
        o.extend_from_slice(&c.to_le_bytes());
        l.add("header_crc", None, 8, 12);
        // blocks
        for (bi, b) in self.blocks.iter().enumerate() {
            let bi = Some(bi);
            let hs = o.len();
            o.push(b.header_size_byte);
            l.add("block_header_size", bi, hs, hs + 1);
            o.push(b.flags);
            l.add("block_flags", bi, hs + 1, hs + 2);
            if let Some(v) = b.packed_size {
                let s = o.len();
                vli_encode(v, &mut o);
                l.add("block_packed_size", bi, s, o.len());
            }
            if let Some(v) = b.unpacked_size {
                let s = o.len();
                vli_encode(v, &mut o);
                l.add("block_unpacked_size", bi, s, o.len());
            }
            let s = o.len();
            for f in &b.filters {
                vli_encode(f.id, &mut o);
                vli_encode(f.props.len() as u64, &mut o);
                o.extend_from_slice(&f.props);
            }
            l.add("block_filters", bi, s, o.len());
            let s = o.len();
            o.extend_from_slice(&b.header_padding);
            l.add("block_header_padding", bi, s, o.len());
            let c = b.header_crc.unwrap_or_else(|| crc32(&o[hs..]));
            let s = o.len();
            o.extend_from_slice(&c.to_le_bytes());
            l.add("block_header_crc", bi, s, o.len());
            let s = o.len();
            o.extend_from_slice(&b.data);
            l.add("block_data", bi, s, o.len());
            let s = o.len();
            o.extend_from_slice(&b.block_padding);
            l.add("block_padding", bi, s, o.len());
            let s = o.len();
            o.extend_from_slice(&b.check);
            l.add("block_check", bi, s, o.len());
        }
        // index
        let is = o.len();
        o.push(self.index_indicator);
        l.add("index_indicator", None, is, is + 1);
        let s = o.len();
        vli_encode(self.index_count, &mut o);
        l.add("index_count", None, s, o.len());
        for (ri, (a, b)) in self.index_records.iter().enumerate() {
            let s = o.len();
            vli_encode(*a, &mut o);
            l.add("index_unpadded", Some(ri), s, o.len());
            let s = o.len();
            vli_encode(*b, &mut o);
            l.add("index_unpacked", Some(ri), s, o.len());
        }
        let s = o.len();
        match &self.index_padding {
            Some(p) => o.extend_from_slice(p),
            None => {
                while (o.len() - is) % 4 != 0 {
                    o.push(0);
                }
            }
        }
        l.add("index_padding", None, s, o.len());
        let c = self.index_crc.unwrap_or_else(|| crc32(&o[is..]));
        let s = o.len();
        o.extend_from_slice(&c.to_le_bytes());
        l.add("index_crc", None, s, o.len());
        let index_size = o.len() - is;
        // footer
        let bs = self
            .backward_size
            .unwrap_or_else(|| ((index_size / 4) as u32).wrapping_sub(1));
        let mut body = Vec::new();
        body.extend_from_slice(&bs.to_le_bytes());
        body.extend_from_slice(&self.footer_flags);
        let c = self.footer_crc.unwrap_or_else(|| crc32(&body));
        let s = o.len();
        o.extend_from_slice(&c.to_le_bytes());
        l.add("footer_crc", None, s, s + 4);
        o.extend_from_slice(&body);
        l.add("footer_backward_size", None, s + 4, s + 8);
        l.add("footer_flags", None, s + 8, s + 10);
        o.extend_from_slice(&self.footer_magic);
        l.add("footer_magic", None, s + 10, s + 12);
        let s = o.len();
        o.extend_from_slice(&self.trailing);
        l.add("trailing", None, s, o.len());
        (o, l)
    }
}

// ---------------------------------------------------------------------------
// Strict parser

#[derive(Clone, Debug, PartialEq, Eq)]
pub enum XzVerdict {
    /// well-formed, within lzma-rs' supported subset; decodes to these bytes
    Ok(Vec<u8>),
    /// well-formed per the specification as far as we can tell, but uses a
    /// feature outside the supported subset
    Unsupported(String),
    /// violates the specification; the string names the first rule broken
    Invalid(String),
}

struct P<'a> {
    d: &'a [u8],
    pos: usize,
}

impl<'a> P<'a> {
    fn take(&mut self, n: usize) -> Result<&'a [u8], String> {
        if self.pos + n > self.d.len() {
            return Err("truncated".into());
        }
        let s = &self.d[self.pos..self.pos + n];
        self.pos += n;
        Ok(s)
    }
    fn u8(&mut self) -> Result<u8, String> {
        Ok(self.take(1)?[0])
    }
    fn u32le(&mut self) -> Result<u32, String> {
        let b = self.take(4)?;
        Ok(u32::from_le_bytes([b[0], b[1], b[2], b[3]]))
    }
}

pub const KNOWN_OTHER_FILTERS: [u64; 9] = [0x03, 0x04, 0x05, 0x06, 0x07, 0x08, 0x09, 0x0A, 0x0B];

/// Parse one stream that must span the whole input.
pub fn parse_strict(d: &[u8]) -> XzVerdict {
    match parse_inner(d) {
        Ok((out, None)) => XzVerdict::Ok(out),
        Ok((_, Some(u))) => XzVerdict::Unsupported(u),
        Err(e) => XzVerdict::Invalid(e),
    }
}

fn parse_inner(d: &[u8]) -> Result<(Vec<u8>, Option<String>), String> {
    let mut p = P { d, pos: 0 };
    let mut unsupported: Option<String> = None;
    if p.take(6)? != HEADER_MAGIC {
        return Err("header magic".into());
    }
    let flags = p.take(2)?;
    let hcrc = p.u32le()?;
    if hcrc != crc32(flags) {
        return Err("header crc".into());
    }
    if flags[0] != 0 || flags[1] & 0xF0 != 0 {
        // reserved bits: "unsupported" for a decoder of this version
        unsupported.get_or_insert("stream flags reserved bits".into());
    }
    let check_id = flags[1] & 0x0F;
    if flags[0] == 0 && flags[1] & 0xF0 == 0 && !matches!(check_id, 0 | 1 | 4) {
        unsupported.get_or_insert(format!("check id {}", check_id));
    }
    let csize = check_size(check_id);
    let mut out = Vec::new();
    let mut records: Vec<(u64, u64)> = Vec::new();
    loop {
        let bstart = p.pos;
        let sz = p.u8()?;
        if sz == 0 {
            break;
        }
        let hlen = (sz as usize + 1) * 4;
        if bstart + hlen > d.len() {
            return Err("truncated".into());
        }
        let hdr = &d[bstart..bstart + hlen - 4];
        let crc = u32::from_le_bytes([
            d[bstart + hlen - 4],
            d[bstart + hlen - 3],
            d[bstart + hlen - 2],
            d[bstart + hlen - 1],
        ]);
        if crc != crc32(hdr) {
            return Err("block header crc".into());
        }
        let mut q = 1usize;
        let bflags = hdr[q];
        q += 1;
        if bflags & 0x3C != 0 {
            unsupported.get_or_insert("block flags reserved bits".into());
            return Ok((out, unsupported));
        }
        let nfilters = (bflags & 3) as usize + 1;
        let mut packed = None;
        let mut unpacked = None;
        if bflags & 0x40 != 0 {
            let v = vli_decode(hdr, &mut q).map_err(|e| format!("block header: {}", e))?;
            if v == 0 {
                return Err("block header: compressed size 0".into());
            }
            packed = Some(v);
        }
        if bflags & 0x80 != 0 {
            unpacked = Some(vli_decode(hdr, &mut q).map_err(|e| format!("block header: {}", e))?);
        }
        let mut filters = Vec::new();
        for _ in 0..nfilters {
            let id = vli_decode(hdr, &mut q).map_err(|e| format!("block header: {}", e))?;
            let n = vli_decode(hdr, &mut q).map_err(|e| format!("block header: {}", e))? as usize;
            if q + n > hdr.len() {
                return Err("block header: filter props overrun".into());
            }
            filters.push((id, hdr[q..q + n].to_vec()));
            q += n;
        }
        if hdr[q..].iter().any(|&b| b != 0) {
            return Err("block header padding".into());
        }
        p.pos = bstart + hlen;
        if filters.len() != 1 || filters[0].0 != 0x21 {
            for (id, _) in &filters {
                if *id != 0x21 && !KNOWN_OTHER_FILTERS.contains(id) && *id < 0x4000_0000_0000_0000 {
                    // unknown id: a decoder must refuse; we call it unsupported too
                }
            }
            unsupported.get_or_insert("filter chain".into());
            return Ok((out, unsupported));
        }
        if filters[0].1.len() != 1 || filters[0].1[0] > 40 {
            return Err("lzma2 filter props".into());
        }
        let r = lzma2::read(&d[p.pos..], true, true).map_err(|e| format!("lzma2: {:?}", e))?;
        if let Some(ps) = packed {
            if ps != r.consumed as u64 {
                return Err("compressed size".into());
            }
        }
        if let Some(us) = unpacked {
            if us != r.output.len() as u64 {
                return Err("uncompressed size".into());
            }
        }
        p.pos += r.consumed;
        let pad = (4 - r.consumed % 4) % 4;
        if p.take(pad)?.iter().any(|&b| b != 0) {
            return Err("block padding".into());
        }
        let chk = p.take(csize)?;
        if matches!(check_id, 1 | 4 | 10) && chk != compute_check(check_id, &r.output).as_slice() {
            return Err("block check".into());
        }
        records.push(((hlen + r.consumed + csize) as u64, r.output.len() as u64));
        out.extend_from_slice(&r.output);
    }
    // index (indicator already consumed)
    let istart = p.pos - 1;
    let n = vli_decode(d, &mut p.pos).map_err(|e| format!("index: {}", e))?;
    if n != records.len() as u64 {
        return Err("index record count".into());
    }
    for (i, (a, b)) in records.iter().enumerate() {
        let ua = vli_decode(d, &mut p.pos).map_err(|e| format!("index: {}", e))?;
        let ub = vli_decode(d, &mut p.pos).map_err(|e| format!("index: {}", e))?;
        if ua != *a {
            return Err(format!("index record {} unpadded size", i));
        }
        if ub != *b {
            return Err(format!("index record {} uncompressed size", i));
        }
    }
    let pad = (4 - (p.pos - istart) % 4) % 4;
    if p.take(pad)?.iter().any(|&b| b != 0) {
        return Err("index padding".into());
    }
    let icrc = p.u32le()?;
    if icrc != crc32(&d[istart..p.pos - 4]) {
        return Err("index crc".into());
    }
    let index_size = p.pos - istart;
    // footer
    let fcrc = p.u32le()?;
    let body = p.take(6)?;
    if fcrc != crc32(body) {
        return Err("footer crc".into());
    }
    let bs = u32::from_le_bytes([body[0], body[1], body[2], body[3]]);
    if (bs as u64 + 1) * 4 != index_size as u64 {
        return Err("backward size".into());
    }
    if body[4..6] != *flags {
        return Err("footer flags differ from header".into());
    }
    if p.take(2)? != FOOTER_MAGIC {
        return Err("footer magic".into());
    }
    if p.pos != d.len() {
        let rest = &d[p.pos..];
        if rest.iter().all(|&b| b == 0) && rest.len() % 4 == 0 {
            unsupported.get_or_insert("stream padding".into());
        } else if rest.len() >= 12 && rest[..6] == HEADER_MAGIC {
            unsupported.get_or_insert("concatenated stream".into());
        } else {
            return Err("trailing garbage".into());
        }
    }
    Ok((out, unsupported))
}

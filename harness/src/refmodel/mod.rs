pub mod crc;
pub mod lzma;
pub mod lzma2;
pub mod program;
pub mod xz;

//! lzverif - runtime monitors for the lzma-rs properties C01..C18.
#![allow(dead_code)]

mod alloc;
mod gen;
#[cfg(not(miri))]
mod liblzma;
#[cfg(miri)]
#[path = "liblzma_stub.rs"]
mod liblzma;
mod mon;
mod refmodel;
mod runner;
mod selfcheck;
mod sut;
mod util;

use runner::{RunCfg, Tier};
use std::time::Duration;

#[global_allocator]
static GLOBAL: alloc::Counting = alloc::Counting;

#[cfg(debug_assertions)]
pub const PROFILE: &str = "chk";
#[cfg(not(debug_assertions))]
pub const PROFILE: &str = "rel";

fn usage() -> ! {
    eprintln!(
        "usage: lzverif <C01..C18|selfcheck> [--tier quick|thorough] [--seed N] [--evidence FILE]\n\
         \x20      [--replay FILE] [--threads N] [--budget SECONDS] [--summary FILE] [--merge FILE]...\n\
         \x20      [--known FILE] [--replay-dir DIR]"
    );
    std::process::exit(2)
}

fn main() {
    let args: Vec<String> = std::env::args().collect();
    if args.len() < 2 {
        usage();
    }
    let what = args[1].clone();
    let mut tier = match std::env::var("VERIF_TIER").ok().as_deref() {
        Some("thorough") => Tier::Thorough,
        _ => Tier::Quick,
    };
    let mut seed: u64 = std::env::var("VERIF_SEED")
        .ok()
        .and_then(|s| s.trim().parse::<i128>().ok())
        .map(|v| v as u64)
        .unwrap_or(1);
    let mut evidence = None;
    let mut replay = None;
    let mut threads = std::thread::available_parallelism().map(|n| n.get()).unwrap_or(4).min(16);
    let mut budget: Option<u64> = std::env::var("VERIF_BUDGET_S").ok().and_then(|s| s.parse().ok());
    let mut summary = None;
    let mut merges: Vec<String> = Vec::new();
    let mut known = "known_findings.json".to_string();
    let mut replay_dir = "replays".to_string();
    let mut i = 2;
    while i < args.len() {
        let a = args[i].as_str();
        let mut val = || {
            i += 1;
            args.get(i).cloned().unwrap_or_else(|| usage())
        };
        match a {
            "--tier" => {
                tier = match val().as_str() {
                    "quick" => Tier::Quick,
                    "thorough" => Tier::Thorough,
                    _ => usage(),
                }
            }
            "--seed" => seed = val().parse::<i128>().map(|v| v as u64).unwrap_or_else(|_| usage()),
            "--evidence" => evidence = Some(val()),
            "--replay" => replay = Some(val()),
            "--threads" => threads = val().parse().unwrap_or_else(|_| usage()),
            "--budget" => budget = Some(val().parse().unwrap_or_else(|_| usage())),
            "--summary" => summary = Some(val()),
            "--merge" => merges.push(val()),
            "--known" => known = val(),
            "--replay-dir" => replay_dir = val(),
            _ => usage(),
        }
        i += 1;
    }
    sut::install_panic_hook();

    if what == "debug-carry" {
        let t: [u8; 52] = [14, 7, 24, 9, 28, 6, 24, 196, 4, 31, 202, 111, 6, 11, 3, 22, 10, 9, 15, 14, 11, 21, 11, 26, 18, 7, 0, 13, 3, 4, 11, 6, 15, 26, 144, 25, 6, 9, 14, 6, 2, 9, 28, 23, 31, 18, 26, 30, 11, 27, 29, 254];
        mon::c04::debug_trace(&t);
        return;
    }
    if what == "debug-floor" {
        let mut rng = util::Rng::new(seed);
        for slot in [31u32, 41, 47] {
            let prog = gen::prog::floor_program(&mut rng, slot);
            let (payload, table, hist) = refmodel::lzma::encode_program(&prog, refmodel::lzma::Props::new(0, 0, 0)).unwrap();
            let mut prev = 5u64;
            let mut best = (0u64, 0usize);
            for (i, r) in table.iter().enumerate() {
                if r.consumed - prev > best.0 {
                    best = (r.consumed - prev, i);
                }
                prev = r.consumed;
            }
            println!("slot {}: {} symbols, payload {} bytes, output {} bytes, most expensive symbol #{} = {} costs {} bytes",
                slot, prog.len(), payload.len(), hist.len(), best.1, prog[best.1].short(), best.0);
        }
        // drive the stream decoder with a cut one byte into the expensive symbol
        let prog = gen::prog::floor_program(&mut rng, 31);
        let (payload, table, hist) = refmodel::lzma::encode_program(&prog, refmodel::lzma::Props::new(0, 0, 0)).unwrap();
        let mut file = sut::lzma_header(0, 1 << 20, Some(Some(hist.len() as u64)));
        let hdr = file.len();
        file.extend_from_slice(&payload);
        let i = prog.len() - 4;
        let b = hdr + table[i - 1].consumed as usize;
        for cut in [b - 1, b, b + 1, b + 2, b + 5] {
            let sink = gen::io::SharedSink::new();
            let obs = sut::new_obs(u64::MAX);
            let run = mon::streamdrv::drive(&file, &sut::default_options(), &[cut], &Default::default(), &sink, &obs);
            println!("cut {} (boundary {}): {} out {} snaps {:?}", cut, b, run.verdict.short(), run.out.len(), run.snaps);
        }
        std::process::exit(0);
    }
    if what == "miri-slice" {
        // C07 workload slice for `cargo miri run`: single-threaded, no FFI oracle.
        // args: --seed S (shard) ; env LZVERIF_MIRI_CASES (default 20)
        // (Miri isolates the environment: the case count comes in through --budget)
        let n: u64 = budget.unwrap_or(20);
        let mut cov = runner::Cov::default();
        let mut bad = 0u64;
        let mut ran = 0u64;
        let mut bytes = 0u64;
        let mut i = 0u64;
        while ran < n {
            let mut rng = util::Rng::for_case(seed, "miri", i);
            i += 1;
            let c = mon::c07::gen_case(&mut rng, Tier::Quick);
            // Miri costs ~10 ms per decoded byte: keep the inputs tiny
            if c.data.len() > 120 {
                continue;
            }
            // the literal table (0x300 << (lc+lp) entries) is filled entry by entry
            // under the interpreter: keep it small
            let big_table = match c.entry {
                0 | 3 => c.data.first().map_or(false, |&p| p < 225 && (p % 9) as u32 + ((p / 9) % 5) as u32 > 3),
                4 => c.raw.0 + c.raw.1 > 3,
                _ => false,
            };
            if big_table {
                continue;
            }
            let m = mon::c07::run_case(&c);
            let mut out = runner::CaseOut::default();
            mon::c07::judge(&c, &m, &mut out, &mut cov);
            ran += 1;
            bytes += c.data.len() as u64 + m.produced;
            // one line per finished case: a shard that runs out of its time slot still counts
            println!("miri-case done shard {} case {}", seed, i - 1);
            for v in &out.violations {
                bad += 1;
                println!("VIOLATION property=C07 replay=(miri shard {} case {}) {} :: {}", seed, i - 1, v.signature, v.detail);
            }
        }
        println!("miri-slice shard {}: {} cases, {} bytes in+out, {} violations, no undefined behaviour reported by the interpreter", seed, ran, bytes, bad);
        std::process::exit(if bad > 0 { 1 } else { 0 });
    }
    if what == "selfcheck" {
        match selfcheck::run(seed, tier.pick(12, 120)) {
            Ok(m) => {
                println!("{}", m);
                std::process::exit(0)
            }
            Err(e) => {
                println!("INCONCLUSIVE: oracle self-check failed: {}", e);
                std::process::exit(2)
            }
        }
    }

    let monitor = match mon::get(&what, tier) {
        Some(m) => m,
        None => {
            eprintln!("unknown property {}", what);
            std::process::exit(2)
        }
    };

    if let Some(path) = replay {
        std::process::exit(runner::replay(&monitor, &path, tier));
    }

    // the oracle must be sound before anything it says is believed
    match selfcheck::run(seed, tier.pick(6, 40)) {
        Ok(m) => println!("{}", m),
        Err(e) => {
            println!("INCONCLUSIVE property={}: oracle self-check failed: {}", what, e);
            std::process::exit(2)
        }
    }

    let mut merged = Vec::new();
    for m in &merges {
        match std::fs::read_to_string(m).map_err(|e| e.to_string()).and_then(|t| util::J::parse(&t)) {
            Ok(j) => merged.push(j),
            Err(e) => {
                println!("INCONCLUSIVE property={}: cannot read sub-run summary {}: {}", what, m, e);
                std::process::exit(2)
            }
        }
    }
    let cfg = RunCfg {
        tier,
        seed,
        threads,
        budget: Duration::from_secs(budget.unwrap_or(tier.pick(150, 600))),
        evidence_path: evidence,
        replay_dir,
        known_findings_path: known,
        profile: PROFILE,
        summary_path: summary,
        merged,
    };
    let out = runner::run_monitor(&monitor, &cfg);
    std::process::exit(out.exit_code);
}

//! Counting global allocator with per-thread live / peak counters.
//! Address-remembering is deliberately not used (it would hide leaks from
//! Miri and costs time); frees on another thread than the allocation are
//! rare here (each case lives on one worker) and only make `live` drift,
//! which `reset()` at the start of every measured call cancels.

use std::alloc::{GlobalAlloc, Layout, System};
use std::cell::Cell;

pub struct Counting;

thread_local! {
    static LIVE: Cell<isize> = const { Cell::new(0) };
    static PEAK: Cell<isize> = const { Cell::new(0) };
    static TOTAL: Cell<u64> = const { Cell::new(0) };
    static BIGGEST: Cell<usize> = const { Cell::new(0) };
}

#[inline]
fn add(n: usize) {
    let _ = LIVE.try_with(|l| {
        let v = l.get() + n as isize;
        l.set(v);
        let _ = PEAK.try_with(|p| {
            if v > p.get() {
                p.set(v)
            }
        });
    });
    let _ = TOTAL.try_with(|t| t.set(t.get() + n as u64));
    let _ = BIGGEST.try_with(|b| {
        if n > b.get() {
            b.set(n)
        }
    });
}

#[inline]
fn sub(n: usize) {
    let _ = LIVE.try_with(|l| l.set(l.get() - n as isize));
}

/// A single request of this size (32 GiB) can never be proportionate to the few
/// megabytes any case consumes or produces, and on this machine it would make
/// the allocation fail - which aborts the process and escapes catch_unwind. So it
/// is reported right here as a violation of the running case, and the process
/// exits with status 1.
pub const ABSURD: usize = 1 << 35;

thread_local! {
    /// (property id, family, index) of the case running on this thread
    pub static CURRENT_CASE: Cell<(&'static str, &'static str, u64)> = const { Cell::new(("", "", 0)) };
}
pub static RUN_SEED: std::sync::atomic::AtomicU64 = std::sync::atomic::AtomicU64::new(0);
pub static RUN_THOROUGH: std::sync::atomic::AtomicBool = std::sync::atomic::AtomicBool::new(false);

#[cold]
fn absurd(size: usize) -> ! {
    let (prop, fam, idx) = CURRENT_CASE.try_with(|c| c.get()).unwrap_or(("", "", 0));
    let seed = RUN_SEED.load(std::sync::atomic::Ordering::Relaxed);
    let tier = if RUN_THOROUGH.load(std::sync::atomic::Ordering::Relaxed) { "thorough" } else { "quick" };
    let prop = if prop.is_empty() { "C07" } else { prop };
    let _ = std::fs::create_dir_all("replays");
    let path = format!("replays/{}-absurd-allocation-{}-{}.json", prop, fam, idx);
    let body = format!(
        "{{\n \"property\": \"{}\",\n \"family\": \"{}\",\n \"index\": {},\n \"seed\": {},\n \"tier\": \"{}\",\n \"profile\": \"{}\",\n \"signature\": \"{}/absurd-allocation\",\n \"detail\": \"a single allocation of {} bytes was requested while this case was running\"\n}}\n",
        prop, fam, idx, seed, tier, crate::PROFILE, prop, size
    );
    let _ = std::fs::write(&path, body);
    println!("VIOLATION property={} replay={}", prop, path);
    println!("  signature: {}/absurd-allocation", prop);
    println!("  detail: a single allocation of {} bytes was requested in case {}#{} (seed {}); the allocation would fail and abort the process, so the run stops here", size, fam, idx, seed);
    std::process::exit(1)
}

unsafe impl GlobalAlloc for Counting {
    unsafe fn alloc(&self, layout: Layout) -> *mut u8 {
        if layout.size() >= ABSURD {
            absurd(layout.size());
        }
        let p = System.alloc(layout);
        if !p.is_null() {
            add(layout.size());
        }
        p
    }
    unsafe fn alloc_zeroed(&self, layout: Layout) -> *mut u8 {
        if layout.size() >= ABSURD {
            absurd(layout.size());
        }
        let p = System.alloc_zeroed(layout);
        if !p.is_null() {
            add(layout.size());
        }
        p
    }
    unsafe fn dealloc(&self, ptr: *mut u8, layout: Layout) {
        System.dealloc(ptr, layout);
        sub(layout.size());
    }
    unsafe fn realloc(&self, ptr: *mut u8, layout: Layout, new_size: usize) -> *mut u8 {
        if new_size >= ABSURD {
            absurd(new_size);
        }
        let p = System.realloc(ptr, layout, new_size);
        if !p.is_null() {
            // while realloc runs both blocks may exist
            add(new_size);
            sub(layout.size());
        }
        p
    }
}

/// Start a measurement on this thread: peak is measured relative to now.
pub fn reset() {
    LIVE.with(|l| l.set(0));
    PEAK.with(|p| p.set(0));
    TOTAL.with(|t| t.set(0));
    BIGGEST.with(|b| b.set(0));
}

#[derive(Clone, Copy, Debug, Default)]
pub struct Usage {
    /// peak of (bytes allocated - bytes freed) since reset
    pub peak: u64,
    /// sum of all allocation sizes since reset
    pub total: u64,
    /// largest single allocation since reset
    pub biggest: u64,
}

pub fn usage() -> Usage {
    Usage {
        peak: PEAK.with(|p| p.get()).max(0) as u64,
        total: TOTAL.with(|t| t.get()),
        biggest: BIGGEST.with(|b| b.get()) as u64,
    }
}

//! Counting global allocator with per-thread live / peak counters.
//! Address-remembering is deliberately not used (it would hide leaks from
//! Miri and costs time); frees on another thread than the allocation are
//! rare here (each case lives on one worker) and only make `live` drift,
//! which `reset()` at the start of every measured call cancels.

use std::alloc::{GlobalAlloc, Layout, System};
use std::cell::Cell;

pub struct Counting;

thread_local! {
    static LIVE: Cell<isize> = const { Cell::new(0) };
    static PEAK: Cell<isize> = const { Cell::new(0) };
    static TOTAL: Cell<u64> = const { Cell::new(0) };
    static BIGGEST: Cell<usize> = const { Cell::new(0) };
}

#[inline]
fn add(n: usize) {
    let _ = LIVE.try_with(|l| {
        let v = l.get() + n as isize;
        l.set(v);
        let _ = PEAK.try_with(|p| {
            if v > p.get() {
                p.set(v)
            }
        });
    });
    let _ = TOTAL.try_with(|t| t.set(t.get() + n as u64));
    let _ = BIGGEST.try_with(|b| {
        if n > b.get() {
            b.set(n)
        }
    });
}

#[inline]
fn sub(n: usize) {
    let _ = LIVE.try_with(|l| l.set(l.get() - n as isize));
}

unsafe impl GlobalAlloc for Counting {
    unsafe fn alloc(&self, layout: Layout) -> *mut u8 {
        let p = System.alloc(layout);
        if !p.is_null() {
            add(layout.size());
        }
        p
    }
    unsafe fn alloc_zeroed(&self, layout: Layout) -> *mut u8 {
        let p = System.alloc_zeroed(layout);
        if !p.is_null() {
            add(layout.size());
        }
        p
    }
    unsafe fn dealloc(&self, ptr: *mut u8, layout: Layout) {
        System.dealloc(ptr, layout);
        sub(layout.size());
    }
    unsafe fn realloc(&self, ptr: *mut u8, layout: Layout, new_size: usize) -> *mut u8 {
        let p = System.realloc(ptr, layout, new_size);
        if !p.is_null() {
            // while realloc runs both blocks may exist
            add(new_size);
            sub(layout.size());
        }
        p
    }
}

/// Start a measurement on this thread: peak is measured relative to now.
pub fn reset() {
    LIVE.with(|l| l.set(0));
    PEAK.with(|p| p.set(0));
    TOTAL.with(|t| t.set(0));
    BIGGEST.with(|b| b.set(0));
}

#[derive(Clone, Copy, Debug, Default)]
pub struct Usage {
    /// peak of (bytes allocated - bytes freed) since reset
    pub peak: u64,
    /// sum of all allocation sizes since reset
    pub total: u64,
    /// largest single allocation since reset
    pub biggest: u64,
}

pub fn usage() -> Usage {
    Usage {
        peak: PEAK.with(|p| p.get()).max(0) as u64,
        total: TOTAL.with(|t| t.get()),
        biggest: BIGGEST.with(|b| b.get()) as u64,
    }
}

//! C07 - Decoders are total: no panic, no hang, bounded memory on arbitrary bytes.

use super::common::*;
use super::{c05, c06, c08, c17};
use crate::gen::io::{ReaderKind, SharedSink};
use crate::gen::l2gen::{gen_chunks, L2Params};
use crate::gen::xzgen::{gen_xz, XzGenParams};
use crate::refmodel::lzma2;
use crate::runner::*;
use crate::sut::{self, Entry, Verdict};
use crate::util::{Rng, J};
use lzma_rs::decompress::raw::Lzma2Decoder;
use lzma_rs::decompress::{Options, Stream, UnpackedSize};
use std::io::Write;

pub const SINK_CAP: u64 = 64 << 20;
pub const HEAP_CONST: u64 = 8 << 20;
pub const HEAP_FACTOR: u64 = 8;
pub const TICK_FACTOR: u64 = 64;
pub const TICK_CONST: u64 = 4096;

const ENTRY: [&str; 6] = ["lzma one-shot", "lzma2 one-shot", "xz one-shot", "Stream", "raw LzmaDecoder", "raw Lzma2Decoder"];
const SRC: [&str; 11] = [
    "uniformly random bytes",
    "random bytes behind a valid prologue",
    "valid stream, random mutations",
    "valid stream, word replaced by an extreme",
    "valid stream, truncated / duplicated / spliced",
    "near-valid: one structured field off (CRCs repaired)",
    "near-valid: LZMA2 framing fault",
    "huge announcements, no payload",
    "C05 / C08 inputs",
    "structured extremes: several size fields set to huge, mutually plausible values (CRCs repaired)",
    "well-formed and left as it is: larger LZMA2 streams / .xz blocks, also with capped distances (output many times the announced dictionary)",
];

#[derive(Clone)]
pub struct Case {
    pub entry: usize,
    pub data: Vec<u8>,
    pub options: Options,
    /// raw lzma constructor parameters
    pub raw: (u32, u32, u32, u32, Option<u64>, Option<usize>),
    pub cuts: Vec<usize>,
    pub src: usize,
    pub desc: String,
}

fn random_options(rng: &mut Rng) -> Options {
    let us = match rng.below(5) {
        0 | 1 => UnpackedSize::ReadFromHeader,
        2 => UnpackedSize::ReadHeaderButUseProvided(if rng.chance(1, 2) { None } else { Some(pick_extreme64(rng)) }),
        3 => UnpackedSize::UseProvided(None),
        _ => UnpackedSize::UseProvided(Some(pick_extreme64(rng))),
    };
    let memlimit = match rng.below(6) {
        0 => Some(0),
        1 => Some(rng.range(1, 5000) as usize),
        2 => Some(usize::MAX),
        // generous but finite: at or above any dictionary a header can announce
        3 => Some(*rng.pick(&[1usize << 32, 1 << 33, 1 << 40, (1 << 32) - 1, 1 << 31])),
        _ => None,
    };
    sut::opts(us, memlimit, rng.chance(1, 4))
}

fn pick_extreme64(rng: &mut Rng) -> u64 {
    match rng.below(8) {
        0 => 0,
        1 => 1,
        2 => 1 << 31,
        3 => (1 << 32) - 1,
        4 => 1 << 63,
        5 => u64::MAX - 1,
        6 => rng.range(0, 100_000),
        _ => rng.next(),
    }
}

fn pick_extreme32(rng: &mut Rng) -> u32 {
    match rng.below(8) {
        0 => 0,
        1 => 1,
        2 => 4095,
        3 => 4096,
        4 => 1 << 31,
        5 => u32::MAX,
        6 => u32::MAX - 1,
        _ => rng.next() as u32,
    }
}

/// a valid stream for the given container kind (0 lzma, 1 lzma2, 2 xz)
fn valid_base(rng: &mut Rng, kind: usize, tier: Tier) -> Option<(Vec<u8>, Options)> {
    match kind {
        0 => {
            let b = c08::build(rng, tier)?;
            Some((b.file, b.options))
        }
        1 => {
            let n = rng.range(1, 5) as usize;
            let w = lzma2::write(&gen_chunks(rng, &L2Params::standard(n, 100))).ok()?;
            Some((w.bytes, sut::default_options()))
        }
        _ => {
            let (spec, _) = gen_xz(rng, &XzGenParams::small());
            Some((spec.serialize().0, sut::default_options()))
        }
    }
}

fn mutate_random(rng: &mut Rng, d: &mut Vec<u8>) {
    for _ in 0..rng.range(1, 6) {
        if d.is_empty() {
            d.push(rng.byte());
            continue;
        }
        let p = rng.usize_below(d.len());
        match rng.below(4) {
            0 => d[p] ^= 1 << rng.below(8),
            1 => d[p] = *rng.pick(&[0u8, 0xFF, 0x80, 0x7F, 1]),
            2 => d[p] = rng.byte(),
            _ => d.insert(p, rng.byte()),
        }
    }
}

fn mutate_word(rng: &mut Rng, d: &mut [u8]) {
    if d.len() < 2 {
        return;
    }
    let wide = d.len() >= 8 && rng.chance(1, 3);
    let n = if wide { 8 } else { 4.min(d.len()) };
    let p = rng.usize_below(d.len() - n + 1);
    let bytes: Vec<u8> = if wide {
        let v = pick_extreme64(rng);
        if rng.chance(1, 2) { v.to_le_bytes().to_vec() } else { v.to_be_bytes().to_vec() }
    } else {
        let v = pick_extreme32(rng);
        let b = if rng.chance(1, 2) { v.to_le_bytes() } else { v.to_be_bytes() };
        b[..n].to_vec()
    };
    d[p..p + n].copy_from_slice(&bytes);
}

fn mutate_shape(rng: &mut Rng, d: &mut Vec<u8>, other: &[u8]) {
    if d.is_empty() {
        return;
    }
    match rng.below(4) {
        0 => d.truncate(rng.usize_below(d.len())),
        1 => {
            let a = rng.usize_below(d.len());
            let b = (a + rng.range(1, 40) as usize).min(d.len());
            let piece = d[a..b].to_vec();
            let at = rng.usize_below(d.len() + 1);
            for (i, x) in piece.into_iter().enumerate() {
                d.insert(at + i, x);
            }
        }
        2 => {
            let cut = rng.usize_below(d.len());
            d.truncate(cut);
            if !other.is_empty() {
                let c2 = rng.usize_below(other.len());
                d.extend_from_slice(&other[c2..]);
            }
        }
        _ => {
            let mut t = d.clone();
            d.append(&mut t);
        }
    }
}

pub fn gen_case(rng: &mut Rng, tier: Tier) -> Case {
    loop {
        let entry = rng.usize_below(ENTRY.len());
        let kind = match entry {
            0 | 3 | 4 => 0,
            1 | 5 => 1,
            _ => 2,
        };
        let src = rng.usize_below(SRC.len());
        let mut options = random_options(rng);
        let mut desc;
        let data: Vec<u8> = match src {
            0 => {
                let n = rng.range(0, 400) as usize;
                desc = format!("{} random bytes", n);
                rng.bytes(n)
            }
            1 => {
                let n = rng.range(0, 300) as usize;
                let mut d = match kind {
                    0 => {
                        let props = rng.below(225) as u8;
                        let size = match rng.below(3) {
                            0 => None,
                            _ => Some(pick_extreme64(rng)),
                        };
                        sut::lzma_header(props, pick_extreme32(rng), Some(size))
                    }
                    1 => vec![*rng.pick(&[0x01u8, 0x02, 0x80, 0xA0, 0xC0, 0xE0, 0xFF])],
                    _ => {
                        let check = *rng.pick(&[0u8, 1, 4, 10]);
                        let mut h = crate::refmodel::xz::HEADER_MAGIC.to_vec();
                        h.extend_from_slice(&[0, check]);
                        h.extend_from_slice(&crate::refmodel::crc::crc32(&[0, check]).to_le_bytes());
                        h
                    }
                };
                desc = format!("valid prologue ({} bytes) + {} random bytes", d.len(), n);
                let mut tail = rng.bytes(n);
                if kind == 0 && !tail.is_empty() && rng.chance(1, 2) {
                    tail[0] = 0;
                }
                d.extend_from_slice(&tail);
                d
            }
            2 | 3 | 4 => {
                let (mut d, o) = match valid_base(rng, kind, tier) {
                    Some(x) => x,
                    None => continue,
                };
                if rng.chance(2, 3) {
                    options.unpacked_size = o.unpacked_size;
                }
                match src {
                    2 => mutate_random(rng, &mut d),
                    3 => mutate_word(rng, &mut d),
                    _ => {
                        let other = valid_base(rng, kind, tier).map(|x| x.0).unwrap_or_default();
                        mutate_shape(rng, &mut d, &other)
                    }
                }
                desc = format!("mutated valid stream, {} bytes", d.len());
                d
            }
            5 => {
                if kind != 2 {
                    continue;
                }
                let (spec, _) = gen_xz(rng, &XzGenParams::small());
                let ms = c06::field_mutants(&spec);
                if ms.is_empty() {
                    continue;
                }
                let m = &ms[rng.usize_below(ms.len())];
                desc = format!("xz field {} {}", m.field, m.class);
                m.spec.serialize().0
            }
            6 => {
                if kind != 1 {
                    continue;
                }
                let n = rng.range(1, 4) as usize;
                let chunks = gen_chunks(rng, &L2Params::standard(n, 60));
                let w = match lzma2::write(&chunks) {
                    Ok(w) => w,
                    Err(_) => continue,
                };
                let mut len = 0;
                let ms = c17::mutants(rng, &w, &chunks, Tier::Quick, &mut len);
                if ms.is_empty() {
                    continue;
                }
                let m = &ms[rng.usize_below(ms.len())];
                desc = format!("lzma2 framing fault: {}", m.note);
                m.bytes.clone()
            }
            7 => {
                if kind != 0 {
                    continue;
                }
                // dict 2^32-1 / size 2^63 and (almost) nothing behind it
                let lc = rng.below(9) as u8;
                let lp = rng.below(5) as u8;
                let pb = rng.below(5) as u8;
                let props = lc + 9 * (lp + 5 * pb);
                let mut d = sut::lzma_header(props, *rng.pick(&[u32::MAX, 1 << 31, u32::MAX - 1, 1 << 30, 1 << 28]), Some(Some(*rng.pick(&[1u64 << 63, u64::MAX - 1, 1 << 40]))));
                let n = rng.range(0, 12) as usize;
                d.extend_from_slice(&vec![0u8; n]);
                // with and without a memory limit that is generous enough for the announcement: a
                // limit is a ceiling, not a licence to allocate what the header announces
                let ml = *rng.pick(&[None, None, Some(usize::MAX), Some(1usize << 32), Some(1usize << 40), Some((1usize << 32) - 1)]);
                options = sut::opts(UnpackedSize::ReadFromHeader, ml, rng.chance(1, 4));
                desc = format!("header lc{} lp{} pb{} announcing a huge dictionary and size, {} zero bytes behind it", lc, lp, pb, n);
                d
            }
            9 => {
                // announcements that only look plausible together: both block size fields,
                // LZMA2 chunk sizes, index records - with every CRC recomputed
                match kind {
                    2 => {
                        let (mut spec, _) = gen_xz(rng, &XzGenParams::small());
                        if spec.blocks.is_empty() {
                            continue;
                        }
                        let big = [1u64 << 14, 1 << 20, 1 << 28, 1 << 31, 1 << 32, 1 << 40, (1 << 62) + 5, (1 << 63) - 1];
                        let bi = rng.usize_below(spec.blocks.len());
                        let packed = *rng.pick(&big);
                        let ratio = *rng.pick(&[1u64, 2, 1 << 10, 1 << 14, 1 << 20]);
                        let unpacked = if rng.chance(1, 2) { packed.saturating_mul(ratio).min((1 << 63) - 1) } else { *rng.pick(&big) };
                        spec.blocks[bi].packed_size = Some(packed);
                        spec.blocks[bi].unpacked_size = Some(unpacked);
                        spec.blocks[bi].flags |= 0xC0;
                        c06::refit_header(&mut spec.blocks[bi]);
                        if rng.chance(1, 2) && bi < spec.index_records.len() {
                            spec.index_records[bi] = (packed.saturating_add(24), unpacked);
                        }
                        if rng.chance(1, 4) {
                            spec.index_count = *rng.pick(&big);
                        }
                        desc = format!("xz block {} declares compressed size {} and uncompressed size {}", bi, packed, unpacked);
                        spec.serialize().0
                    }
                    1 => {
                        // an LZMA2 chunk announcing the largest sizes in front of almost nothing
                        let mut d = vec![0xE0 | 0x1F, 0xFF, 0xFF, 0xFF, 0xFF, rng.below(225) as u8];
                        let n = rng.range(0, 40) as usize;
                        d.extend_from_slice(&rng.bytes(n));
                        desc = format!("lzma2 chunk announcing 2 MiB / 64 KiB followed by {} bytes", n);
                        d
                    }
                    _ => continue,
                }
            }
            10 => {
                // totality also covers the inputs that are simply valid: decode them to the end
                match kind {
                    0 => continue,
                    1 => {
                        let mut p = L2Params::standard(rng.range(2, 10) as usize, 300);
                        if rng.chance(1, 2) {
                            p.max_dist = *rng.pick(&[4096u64, 6144, 8192]);
                            p.long_bias = true;
                            p.w = [0, 3, 10, 3, 3, 0];
                        }
                        match lzma2::write(&gen_chunks(rng, &p)) {
                            Ok(w) => {
                                desc = format!("well-formed LZMA2 stream, {} bytes -> {} bytes", w.bytes.len(), w.output.len());
                                w.bytes
                            }
                            Err(_) => continue,
                        }
                    }
                    _ => {
                        let (mut spec, d) = gen_xz(rng, &XzGenParams::standard(3));
                        desc = format!("well-formed .xz: {}", d.chars().take(200).collect::<String>());
                        // a third: the LZMA2 dictionary property re-announced (any of the 41 legal
                        // values, mostly the smallest ones), the header re-sealed - the payload may
                        // then use distances beyond what the block announces
                        if rng.chance(1, 3) {
                            for b in spec.blocks.iter_mut() {
                                for f in b.filters.iter_mut() {
                                    if f.id == 0x21 && f.props.len() == 1 {
                                        f.props[0] = if rng.chance(2, 3) { rng.below(4) as u8 } else { rng.below(41) as u8 };
                                    }
                                }
                            }
                            desc = format!("{} | dictionary property re-announced", desc);
                        }
                        spec.serialize().0
                    }
                }
            }
            _ => {
                if kind != 0 {
                    continue;
                }
                match c05::gen_input(rng, tier, 3000) {
                    Some(i) => {
                        options.unpacked_size = i.options.unpacked_size;
                        desc = i.desc;
                        i.file
                    }
                    None => continue,
                }
            }
        };
        let raw = (
            *rng.pick(&[0u32, 3, 8, 9, 255]),
            *rng.pick(&[0u32, 2, 4, 5]),
            *rng.pick(&[0u32, 2, 4, 5]),
            *rng.pick(&[0u32, 1, 2, 4095, 4096, u32::MAX]),
            *rng.pick(&[None, Some(0u64), Some(1), Some(11), Some(1 << 63)]),
            *rng.pick(&[None, Some(0usize), Some(100)]),
        );
        // raw decoders get the payload only
        let data = if entry == 4 && data.len() > 13 && rng.chance(2, 3) { data[13..].to_vec() } else { data };
        let cuts = {
            let k = rng.range(0, 8) as usize;
            super::streamdrv::cuts_random(rng, data.len(), k)
        };
        if entry == 4 {
            desc = format!("{} | raw ctor lc{} lp{} pb{} dict {} size {:?} memlimit {:?}", desc, raw.0, raw.1, raw.2, raw.3, raw.4, raw.5);
        }
        return Case { entry, data, options, raw, cuts, src, desc };
    }
}

pub struct Measured {
    pub verdict: Verdict,
    pub ticks: u64,
    pub produced: u64,
    pub consumed: u64,
    pub peak_heap: u64,
    pub biggest_alloc: u64,
    pub ctor_refused: bool,
    pub sink_cap_hit: bool,
}

pub fn run_case(c: &Case) -> Measured {
    let sink = SharedSink::counting_only();
    sink.0.borrow_mut().cap = Some(SINK_CAP);
    // the budget cannot be known in advance (produced is part of it): use the
    // worst case the sink cap allows; the exact bound is judged afterwards
    let hard = TICK_FACTOR * (c.data.len() as u64 + SINK_CAP) + TICK_CONST;
    let obs = sut::new_obs(hard);
    obs.borrow_mut().tick_input_len = Some(c.data.len() as u64);
    let mut ctor_refused = false;
    let mut consumed = c.data.len() as u64;
    crate::alloc::reset();
    let verdict = match c.entry {
        0 | 1 | 2 => {
            let e = [Entry::Lzma, Entry::Lzma2, Entry::Xz][c.entry];
            let r = sut::decode(e, &c.data, &c.options, ReaderKind::Slice, &sink, &obs);
            consumed = r.consumed as u64;
            r.verdict
        }
        3 => {
            let s2 = sink.clone();
            let r = sut::observed(&obs, || {
                let mut s = Stream::new_with_options(&c.options, s2);
                let mut start = 0usize;
                let mut bounds = c.cuts.clone();
                bounds.push(c.data.len());
                for end in bounds {
                    let end = end.max(start).min(c.data.len());
                    let mut piece = &c.data[start..end];
                    let mut spins = 0;
                    while !piece.is_empty() {
                        match s.write(piece) {
                            Ok(0) => break,
                            Ok(n) => piece = &piece[n..],
                            Err(e) => return Err(e.to_string()),
                        }
                        spins += 1;
                        if spins > 100_000 {
                            return Err("harness: write made no progress".into());
                        }
                    }
                    let _ = s.flush();
                    start = end;
                }
                s.finish().map(|_| ()).map_err(|e| e.to_string())
            });
            match r {
                Ok(Ok(())) => Verdict::Ok,
                Ok(Err(e)) => Verdict::Err(e),
                Err(v) => v,
            }
        }
        4 => match sut::raw_lzma_new(c.raw.0, c.raw.1, c.raw.2, c.raw.3, c.raw.4, c.raw.5) {
            Ok(mut d) => {
                let r = sut::raw_lzma_decompress(&mut d, &c.data, ReaderKind::Slice, &sink, &obs);
                consumed = r.consumed as u64;
                r.verdict
            }
            Err(v) => {
                ctor_refused = true;
                v
            }
        },
        _ => {
            let mut d = Lzma2Decoder::new();
            let r = sut::raw_lzma2_decompress(&mut d, &c.data, ReaderKind::Slice, &sink, &obs);
            consumed = r.consumed as u64;
            r.verdict
        }
    };
    let u = crate::alloc::usage();
    let o = obs.borrow();
    let st = sink.0.borrow();
    Measured {
        verdict,
        ticks: o.ticks,
        produced: st.len,
        consumed,
        peak_heap: u.peak,
        biggest_alloc: u.biggest,
        ctor_refused,
        sink_cap_hit: st.errored,
    }
}

pub fn judge(c: &Case, m: &Measured, out: &mut CaseOut, cov: &mut Cov) {
    out.evals += 1;
    cov.inc("entry", c.entry as u32);
    cov.inc("source", c.src as u32);
    cov.add("entry_x_source", (c.entry * 16 + c.src) as u32, 1);
    cov.inc("verdict", match &m.verdict { Verdict::Ok => 0, Verdict::Err(_) => 1, _ => 2 });
    cov.max("ticks", m.ticks);
    cov.max("produced", m.produced);
    cov.max("peak_heap", m.peak_heap);
    if m.sink_cap_hit {
        cov.name("sink_cap_reached(compression bomb stopped by the sink)", 1);
    }
    // non-trivial: the decoder got past its prologue checks into at least one loop
    if m.ticks > 0 {
        out.nontrivial.push(case_hash(&[&c.data, &[c.entry as u8], format!("{:?}{:?}{:?}", c.options, c.raw, c.cuts).as_bytes()]));
    }
    let data = || {
        J::obj()
            .set("input_hex", J::s(crate::util::hex_trunc(&c.data, 4096)))
            .set("entry", J::s(ENTRY[c.entry]))
            .set("options", J::s(format!("{:?}", c.options)))
            .set("raw_ctor", J::s(format!("{:?}", c.raw)))
            .set("cuts", J::s(format!("{:?}", c.cuts)))
            .set("input", J::s(c.desc.as_str()))
    };
    if m.ctor_refused {
        // a constructor that refuses (error value, or the documented assertion on
        // lc/lp/pb) did not accept the parameters: nothing to hold it to
        let documented = c.raw.0 > 8 || c.raw.1 > 4 || c.raw.2 > 4;
        cov.name(if documented { "raw_ctor_refused(lc/lp/pb out of range)" } else { "raw_ctor_refused(other)" }, 1);
        if let Verdict::Panic(msg, loc) = &m.verdict {
            if !documented {
                out.violate(
                    format!("C07/raw-constructor-panic/{}:{}", strip_repo(loc), digits_out(msg)),
                    format!("LzmaDecoder::new panicked for in-range properties: {} [{}]", m.verdict.short(), c.desc),
                    data(),
                );
            }
        }
        return;
    }
    match &m.verdict {
        Verdict::Panic(msg, loc) => {
            out.violate(
                format!("C07/panic/{}/{}", strip_repo(loc), digits_out(msg)),
                format!("{} panicked: {} at {} [{}]", ENTRY[c.entry], msg, loc, c.desc),
                data(),
            );
            return;
        }
        Verdict::TickOverrun(n) => {
            out.violate(
                format!("C07/non-termination/{}", ENTRY[c.entry]),
                format!("{}: more than {} loop iterations on {} input bytes [{}]", ENTRY[c.entry], n, c.data.len(), c.desc),
                data(),
            );
            return;
        }
        _ => {}
    }
    let tick_bound = TICK_FACTOR * (c.data.len() as u64 + m.produced) + TICK_CONST;
    if m.ticks > tick_bound {
        out.violate(
            format!("C07/disproportionate-iterations/{}", ENTRY[c.entry]),
            format!("{}: {} loop iterations for {} input bytes and {} output bytes (bound {}) [{}]", ENTRY[c.entry], m.ticks, c.data.len(), m.produced, tick_bound, c.desc),
            data(),
        );
    }
    let heap_bound = HEAP_CONST + HEAP_FACTOR * (m.consumed.min(c.data.len() as u64) + m.produced);
    if m.peak_heap > heap_bound {
        out.violate(
            format!("C07/memory-out-of-proportion/{}", ENTRY[c.entry]),
            format!(
                "{}: peak heap {} bytes (largest single allocation {}) after consuming {} and producing {} bytes (bound {}) [{}]",
                ENTRY[c.entry], m.peak_heap, m.biggest_alloc, m.consumed, m.produced, heap_bound, c.desc
            ),
            data(),
        );
    }
}

fn fam_hostile(ctx: &CaseCtx, cov: &mut Cov) -> CaseOut {
    let mut out = CaseOut::default();
    let mut rng = ctx.rng();
    let c = gen_case(&mut rng, ctx.tier);
    let m = run_case(&c);
    if ctx.verbose {
        ctx.say(format!("{} | {} -> {} ticks {} produced {} peak heap {}", ENTRY[c.entry], c.desc, m.verdict.short(), m.ticks, m.produced, m.peak_heap));
    }
    judge(&c, &m, &mut out, cov);
    out.sample = Some(J::obj().set("entry", J::s(ENTRY[c.entry])).set("input", J::s(c.desc.as_str())).set("len", J::i(c.data.len())).set("verdict", J::s(m.verdict.short().chars().take(80).collect::<String>())));
    out
}

/// raw decoder constructor grid: every accepted parameter combination must then
/// decode arbitrary payloads without panicking
fn fam_raw_grid(ctx: &CaseCtx, cov: &mut Cov) -> CaseOut {
    let mut out = CaseOut::default();
    let mut rng = ctx.rng();
    let dicts = [0u32, 1, 2, 4095, 4096, u32::MAX];
    let sizes = [None, Some(0u64), Some(1), Some(2), Some(11), Some(1u64 << 63)];
    let i = ctx.index as usize;
    let dict = dicts[i % dicts.len()];
    let size = sizes[(i / dicts.len()) % sizes.len()];
    let lc = rng.below(9) as u32;
    let lp = rng.below(5) as u32;
    let pb = rng.below(5) as u32;
    // payloads: a valid literal-only stream, zeros, random
    let payload: Vec<u8> = match (i / 36) % 3 {
        0 => {
            let mut o = Vec::new();
            let plain = rng.bytes(20);
            let _ = lzma_rs::lzma_compress_with_options(&mut &plain[..], &mut o, &lzma_rs::compress::Options { unpacked_size: lzma_rs::compress::UnpackedSize::SkipWritingToHeader });
            o[5..].to_vec()
        }
        1 => vec![0u8; rng.range(0, 40) as usize],
        _ => {
            let n = rng.range(0, 60) as usize;
            let mut v = rng.bytes(n);
            if !v.is_empty() {
                v[0] = 0;
            }
            v
        }
    };
    let c = Case {
        entry: 4,
        data: payload,
        options: sut::default_options(),
        raw: (lc, lp, pb, dict, size, *rng.pick(&[None, Some(0usize), Some(1), Some(4096)])),
        cuts: vec![],
        src: 1,
        desc: format!("raw ctor grid: lc{} lp{} pb{} dict {} size {:?}", lc, lp, pb, dict, size),
    };
    let m = run_case(&c);
    cov.name(&format!("raw_grid.dict={}", dict), 1);
    judge(&c, &m, &mut out, cov);
    out
}

/// raw decoders used several times (with and without reset in between) on hostile
/// inputs: a failed or half-finished decode must not leave a state that makes a
/// later call panic, spin or balloon
fn fam_raw_history(ctx: &CaseCtx, cov: &mut Cov) -> CaseOut {
    let mut out = CaseOut::default();
    let mut rng = ctx.rng();
    let lzma2 = rng.chance(1, 2);
    let steps = rng.range(2, 6);
    let sink = SharedSink::counting_only();
    sink.0.borrow_mut().cap = Some(SINK_CAP);
    let mut log: Vec<String> = Vec::new();
    let mut total_in = 0u64;
    if lzma2 {
        let mut d = Lzma2Decoder::new();
        for _ in 0..steps {
            let c = loop {
                let c = gen_case(&mut rng, ctx.tier);
                if c.entry == 1 || c.entry == 5 {
                    break c;
                }
            };
            if rng.chance(1, 3) {
                let _ = sut::guarded(|| d.reset());
                log.push("reset".into());
            }
            let hard = TICK_FACTOR * (c.data.len() as u64 + SINK_CAP) + TICK_CONST;
            let obs = sut::new_obs(hard);
            obs.borrow_mut().tick_input_len = Some(c.data.len() as u64);
            crate::alloc::reset();
            let before = sink.len();
            let r = sut::raw_lzma2_decompress(&mut d, &c.data, ReaderKind::Slice, &sink, &obs);
            let peak = crate::alloc::usage().peak;
            total_in += c.data.len() as u64;
            log.push(format!("decompress({} bytes: {}) -> {}", c.data.len(), c.desc.chars().take(50).collect::<String>(), r.verdict.short().chars().take(50).collect::<String>()));
            let m = Measured { verdict: r.verdict, ticks: obs.borrow().ticks, produced: sink.len() - before, consumed: r.consumed as u64, peak_heap: peak, biggest_alloc: 0, ctor_refused: false, sink_cap_hit: false };
            let mut c2 = c.clone();
            c2.entry = 5;
            c2.desc = format!("raw Lzma2Decoder history: {}", log.join(" ; "));
            judge(&c2, &m, &mut out, cov);
            if !out.violations.is_empty() {
                return out;
            }
        }
    } else {
        let lc = rng.below(9) as u32;
        let lp = rng.below(5) as u32;
        let pb = rng.below(5) as u32;
        let dict = *rng.pick(&[1u32, 2, 64, 4096, u32::MAX]);
        let mut d = match sut::raw_lzma_new(lc, lp, pb, dict, *rng.pick(&[None, Some(0u64), Some(20), Some(1 << 40)]), *rng.pick(&[None, Some(100usize)])) {
            Ok(d) => d,
            Err(_) => return out,
        };
        for _ in 0..steps {
            let c = loop {
                let c = gen_case(&mut rng, ctx.tier);
                if c.entry == 4 || c.entry == 0 {
                    break c;
                }
            };
            let data: &[u8] = if c.entry == 0 && c.data.len() > 13 { &c.data[13..] } else { &c.data };
            if rng.chance(1, 3) {
                let arg = *rng.pick(&[None, Some(None), Some(Some(0u64)), Some(Some(33)), Some(Some(1 << 50))]);
                let _ = sut::guarded(|| d.reset(arg));
                log.push(format!("reset({:?})", arg));
            }
            let hard = TICK_FACTOR * (data.len() as u64 + SINK_CAP) + TICK_CONST;
            let obs = sut::new_obs(hard);
            obs.borrow_mut().tick_input_len = Some(data.len() as u64);
            crate::alloc::reset();
            let before = sink.len();
            let r = sut::raw_lzma_decompress(&mut d, data, ReaderKind::Slice, &sink, &obs);
            let peak = crate::alloc::usage().peak;
            total_in += data.len() as u64;
            log.push(format!("decompress({} bytes) -> {}", data.len(), r.verdict.short().chars().take(50).collect::<String>()));
            let m = Measured { verdict: r.verdict, ticks: obs.borrow().ticks, produced: sink.len() - before, consumed: r.consumed as u64, peak_heap: peak, biggest_alloc: 0, ctor_refused: false, sink_cap_hit: false };
            let mut c2 = c.clone();
            c2.entry = 4;
            c2.data = data.to_vec();
            c2.desc = format!("raw LzmaDecoder(lc{} lp{} pb{} dict {}) history: {}", lc, lp, pb, dict, log.join(" ; "));
            judge(&c2, &m, &mut out, cov);
            if !out.violations.is_empty() {
                return out;
            }
        }
    }
    cov.name("raw_decoder_reuse_histories", 1);
    let _ = total_in;
    out.sample = Some(J::obj().set("entry", J::s(if lzma2 { "raw Lzma2Decoder history" } else { "raw LzmaDecoder history" })).set("calls", J::Arr(log.iter().map(|s| J::s(s.as_str())).collect())));
    out
}

fn label(group: &str, i: u32) -> String {
    match group {
        "entry" => ENTRY[i as usize].to_string(),
        "source" => SRC[i as usize].to_string(),
        "entry_x_source" => format!("{} | {}", ENTRY[(i / 16) as usize], SRC[(i % 16) as usize]),
        "verdict" => ["Ok", "Err", "abnormal"][i as usize].to_string(),
        _ => std_label(group, i),
    }
}

fn floors(_: Tier, cov: &Cov) -> Vec<String> {
    let mut m = Vec::new();
    if cov.group_nonzero("entry") < ENTRY.len() || cov.group_nonzero("source") < SRC.len() {
        m.push("entry points / input sources incomplete".into());
    }
    if cov.get("verdict", 0) == 0 || cov.get("verdict", 1) == 0 {
        m.push("hostile workload produced only one verdict class".into());
    }
    m
}

pub fn monitor(tier: Tier) -> Monitor {
    Monitor {
        id: "C07",
        level: "exploration",
        rule: "cases = (entry point in {lzma, lzma2, xz one-shot, Stream under random chunking, raw LzmaDecoder with constructor parameters from {0,1,2,4095,4096,2^32-1} x sizes {None,0,1,11,2^63} x lc/lp/pb incl. out-of-range, raw Lzma2Decoder, plus histories of 2-6 decompress calls with optional resets on one raw decoder}, options incl. memlimits and all size options, hostile bytes from 9 sources: uniformly random, random behind a valid prologue, valid streams with bit/byte mutations, 4/8-byte words replaced by extremes (0, 1, 2^31, 2^32-1, 2^63, ...), truncation / duplication / splicing, CRC-repaired structured field faults (C06 mutator), LZMA2 framing faults (C17 mutator), huge-dictionary/size announcements with no payload, C05/C08 inputs); monitors per execution: panic capture, logical step budget from Tick hooks (ticks <= 64 x (input + produced) + 4096), counting allocator with a non-storing sink capped at 64 MiB (peak heap <= 8 MiB + 8 x (consumed + produced)); both overflow-checked and release arithmetic; non-trivial = the Tick hook saw at least one loop iteration (the input got past the prologue checks); distinct by hash of (bytes, entry, options, constructor parameters, chunking)",
        assumptions: vec![
            "a raw constructor that panics on lc>8 / lp>4 / pb>4 (documented on the fields, asserted in validate()) has not accepted its parameters".into(),
            "8 MiB constant covers the 6.3 MiB literal table of lc+lp=12; factor 8 covers Vec doubling plus the XZ path holding window and block buffer at once".into(),
            "wall-clock is never a verdict: non-termination is judged on loop iterations reported by Tick hooks at every loop head".into(),
        ],
        families: vec![
            Family { name: "raw_ctor_grid", count: 36 * 3 * tier.pick(4, 40), priority: true, enumerated: false, run: fam_raw_grid },
            Family { name: "raw_reuse_histories", count: tier.pick(40_000, 1_000_000), priority: false, enumerated: false, run: fam_raw_history },
            Family { name: "hostile", count: tier.pick(600_000, 40_000_000), priority: false, enumerated: false, run: fam_hostile },
        ],
        label,
        floors,
        summarize: no_summary,
    }
}

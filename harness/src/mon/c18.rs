//! C18 - Unsupported XZ features are refused explicitly.

use super::common::*;
use crate::gen::io::{ReaderKind, SharedSink};
use crate::gen::prog::structured_data;
use crate::gen::xzgen::{gen_payload, gen_xz, XzGenParams};
use crate::liblzma as ll;
use crate::refmodel::xz::{self, BlockOpts, BlockSpec, FilterSpec, XzSpec};
use crate::runner::*;
use crate::sut::{self, Entry, Verdict};
use crate::util::{Rng, J};

const FEATURES: [&str; 9] = [
    "check: SHA-256",
    "check: unassigned ID",
    "filter: delta + LZMA2",
    "filter: BCJ + LZMA2",
    "filter: unknown ID",
    "reserved bits: block flags",
    "reserved bits: stream flags",
    "two concatenated streams",
    "stream padding",
];

fn run_xz(data: &[u8], rk: ReaderKind) -> (Verdict, Vec<u8>) {
    let sink = SharedSink::varied(case_hash(&[data]) >> 8, data.len() * 8);
    let obs = sut::new_obs(u64::MAX);
    let c = sut::decode(Entry::Xz, data, &sut::default_options(), rk, &sink, &obs);
    (c.verdict, sink.bytes())
}

fn must_refuse(out: &mut CaseOut, cov: &mut Cov, feature: usize, what: &str, file: &[u8], rng: &mut Rng) {
    let rk = if rng.chance(1, 3) { ReaderKind::random(rng) } else { ReaderKind::Slice };
    let (v, o) = run_xz(file, rk);
    out.evals += 1;
    cov.inc("feature", feature as u32);
    out.nontrivial.push(case_hash(&[file]));
    match &v {
        Verdict::Err(e) => cov.name(&format!("refused_by.{}.{}", feature, digits_out(e).chars().take(44).collect::<String>()), 1),
        other => out.violate(
            format!("C18/{}/{}", FEATURES[feature], if other.is_ok() { "accepted".to_string() } else { verdict_sig(other) }),
            format!("{} ({}), reader {}: {} with {} output bytes", FEATURES[feature], what, rk.name(), other.short(), o.len()),
            J::obj().set("input_hex", J::s(crate::util::hex_trunc(file, 4096))).set("what", J::s(what)),
        ),
    }
}

fn valid_blocks(rng: &mut Rng, check: u8, n: usize) -> Vec<BlockSpec> {
    (0..n)
        .map(|_| {
            let (data, plain, _) = gen_payload(rng, true);
            let bo = BlockOpts {
                with_packed: rng.chance(1, 2),
                with_unpacked: rng.chance(1, 2),
                extra_header_words: 0,
                dict_prop: xz::lzma2_dict_prop_for(plain.len() as u64),
            };
            BlockSpec::new(data, plain, check, &bo)
        })
        .collect()
}

/// all 16 check IDs
fn fam_checks(ctx: &CaseCtx, cov: &mut Cov) -> CaseOut {
    let mut out = CaseOut::default();
    let mut rng = ctx.rng();
    let id = (ctx.index % 16) as u8;
    let nb = ((ctx.index / 16) % 4) as usize;
    let blocks = valid_blocks(&mut rng, id, nb);
    let spec = XzSpec::new(id, blocks);
    let (file, _) = spec.serialize();
    let plain = spec.plain();
    // liblzma (not verifying checks it does not know) confirms the file is well-formed
    let d = ll::xz_decode_ignore_check(&file);
    if !(d.ok() && d.out == plain) {
        out.harness_error(format!("liblzma does not accept the generated check-{} file (ret {})", id, d.ret));
        return out;
    }
    cov.inc("check_id", id as u32);
    let what = format!("check id {} with {} block(s)", id, nb);
    match id {
        0 | 1 | 4 => {
            // supported: sanity (so that the refusals below are about the feature)
            let (v, o) = run_xz(&file, ReaderKind::Slice);
            out.evals += 1;
            if !(v.is_ok() && o == plain) {
                out.violate("C18/supported-check-refused", format!("{}: {}", what, v.short()), J::obj().set("input_hex", J::s(crate::util::hex_trunc(&file, 2048))));
            }
        }
        10 if nb == 0 => {
            // nothing to verify in a file without blocks: either verdict is fine,
            // but success must deliver nothing
            let (v, o) = run_xz(&file, ReaderKind::Slice);
            out.evals += 1;
            cov.name("lenient.sha256_zero_blocks", 1);
            if v.is_abnormal() || (v.is_ok() && !o.is_empty()) {
                out.violate("C18/sha256-zero-blocks", format!("{}: {} with {} bytes", what, v.short(), o.len()), J::obj().set("input_hex", J::s(crate::util::hex(&file))));
            }
        }
        10 => must_refuse(&mut out, cov, 0, &what, &file, &mut rng),
        _ => must_refuse(&mut out, cov, 1, &what, &file, &mut rng),
    }
    out.sample = Some(J::obj().set("what", J::s(what)).set("file_len", J::i(file.len())));
    out
}

/// filter chains other than [LZMA2]
fn fam_filters(ctx: &CaseCtx, cov: &mut Cov) -> CaseOut {
    let mut out = CaseOut::default();
    let mut rng = ctx.rng();
    let kind = ctx.index % 3;
    let n = rng.range(1, 5000) as usize;
    let plain = structured_data(&mut rng, n);
    let check = *rng.pick(&[0, 1, 4]);
    match kind {
        0 | 1 => {
            let pre = if kind == 0 {
                ll::PreFilter::Delta(rng.range(1, 256) as u32)
            } else {
                ll::PreFilter::Bcj(*rng.pick(&[ll::FILTER_X86, ll::FILTER_POWERPC, ll::FILTER_IA64, ll::FILTER_ARM, ll::FILTER_ARMTHUMB, ll::FILTER_SPARC]))
            };
            let eo = ll::EncOpts::default();
            let ff: Vec<usize> = if rng.chance(1, 3) { vec![n / 2] } else { vec![] };
            let file = match ll::xz_encode(&plain, &eo, check, pre, &ff) {
                Some(f) => f,
                None => {
                    out.harness_error(format!("liblzma could not encode with {:?}", pre));
                    return out;
                }
            };
            let d = ll::xz_decode(&file, false);
            if !(d.ok() && d.out == plain) {
                out.harness_error("liblzma cannot decode its own filtered file");
                return out;
            }
            must_refuse(&mut out, cov, if kind == 0 { 2 } else { 3 }, &format!("{:?} + LZMA2, liblzma-encoded, check {}", pre, check), &file, &mut rng);
            out.sample = Some(J::obj().set("what", J::s(format!("{:?} + LZMA2 written by liblzma", pre))).set("file_len", J::i(file.len())));
        }
        _ => {
            // unknown / random filter ids, alone or before LZMA2
            let (data, p2, _) = gen_payload(&mut rng, true);
            // every small ID in turn (single filter, one property byte: the shape of a
            // supported block), then random ones
            let systematic = (ctx.index / 3) % 2 == 0;
            let id: u64 = if systematic {
                (ctx.index / 6) % 0x60
            } else {
                match rng.below(7) {
                // truncation candidates: IDs that equal 0x21 in their low 8 / 16 / 32 bits
                5 => 0x21 | (1u64 << rng.range(8, 62)),
                6 => 0x21 + (rng.range(1, 0x3FFF_FFFF) << *rng.pick(&[8u32, 16, 32])),
                0 => rng.range(0, 0x20),
                1 => rng.range(0x22, 0x7F),
                2 => rng.range(0x80, 0x3FFF),
                3 => 0x4000_0000_0000_0001, // LZMA1, not allowed in .xz
                _ => rng.next() >> 2,
                }
            };
            if id == 0x21 {
                return out;
            }
            let nprops = if systematic { 1 } else { rng.below(4) as usize };
            let f1 = FilterSpec { id, props: if systematic { vec![xz::lzma2_dict_prop_for(p2.len() as u64)] } else { rng.bytes(nprops) } };
            let lz = FilterSpec { id: 0x21, props: vec![xz::lzma2_dict_prop_for(p2.len() as u64)] };
            let filters = if !systematic && rng.chance(1, 2) { vec![f1, lz] } else { vec![f1] };
            cov.add("filter_id_single_chain", id.min(0x60) as u32, 1);
            let nf = filters.len();
            let b = BlockSpec::with_filters(data, p2, check as u8, &BlockOpts::default(), filters);
            let file = XzSpec::new(check as u8, vec![b]).serialize().0;
            must_refuse(&mut out, cov, 4, &format!("filter id {:#x} in a chain of {}", id, nf), &file, &mut rng);
            out.sample = Some(J::obj().set("what", J::s(format!("filter id {:#x}", id))).set("file_len", J::i(file.len())));
        }
    }
    out
}

/// each reserved bit, CRCs repaired, header and footer kept equal
fn fam_reserved(ctx: &CaseCtx, cov: &mut Cov) -> CaseOut {
    let mut out = CaseOut::default();
    let mut rng = ctx.rng();
    let (mut spec, desc) = loop {
        let (s, d) = gen_xz(&mut rng, &XzGenParams::small());
        if !s.blocks.is_empty() {
            break (s, d);
        }
    };
    let which = ctx.index % 3;
    match which {
        0 => {
            let bit = [0x04u8, 0x08, 0x10, 0x20][rng.usize_below(4)];
            let bi = rng.usize_below(spec.blocks.len());
            spec.blocks[bi].flags |= bit;
            let file = spec.serialize().0;
            must_refuse(&mut out, cov, 5, &format!("block {} flags |= {:#04x} [{}]", bi, bit, desc), &file, &mut rng);
        }
        1 => {
            let bit = 1u8 << rng.below(8);
            spec.header_flags[0] |= bit;
            spec.footer_flags[0] |= bit;
            let file = spec.serialize().0;
            must_refuse(&mut out, cov, 6, &format!("stream flags byte 0 |= {:#04x} [{}]", bit, desc), &file, &mut rng);
        }
        _ => {
            let bit = 0x10u8 << rng.below(4);
            spec.header_flags[1] |= bit;
            spec.footer_flags[1] |= bit;
            let file = spec.serialize().0;
            must_refuse(&mut out, cov, 6, &format!("stream flags byte 1 |= {:#04x} [{}]", bit, desc), &file, &mut rng);
        }
    }
    out.sample = Some(J::obj().set("base", J::s(desc)));
    out
}

/// EVERY value of the two stream-flag bytes (header and footer alike, CRCs
/// repaired) and every combination of the reserved block-flag bits: only
/// 00 00 / 00 01 / 00 04 are inside the supported subset.
fn fam_flags_exhaustive(ctx: &CaseCtx, cov: &mut Cov) -> CaseOut {
    let mut out = CaseOut::default();
    let mut rng = ctx.rng();
    let i = ctx.index % 272;
    if i < 256 {
        let b0 = i as u8;
        let nb = rng.range(0, 2) as usize;
        for b1 in 0..=255u8 {
            if b0 == 0 && b1 < 16 {
                continue; // check IDs proper: family check_ids
            }
            // blocks carry the check field the low nibble announces (so that nothing else is wrong)
            let id = b1 & 0x0F;
            let blocks = valid_blocks(&mut rng, id, nb);
            let mut spec = XzSpec::new(id, blocks);
            spec.header_flags = [b0, b1];
            spec.footer_flags = [b0, b1];
            let file = spec.serialize().0;
            must_refuse(&mut out, cov, 6, &format!("stream flags {:02x} {:02x} in header and footer, {} blocks", b0, b1, nb), &file, &mut rng);
        }
        cov.name("stream_flag_words_enumerated", 1);
    } else {
        let bits = ((i - 255) as u8) << 2; // 1..=16 -> reserved bits 2..5 in every non-zero combination (16 wraps to bit 6: skipped)
        if bits & 0x3C == 0 || bits & 0xC0 != 0 {
            return out;
        }
        let (mut spec, desc) = loop {
            let (s, d) = gen_xz(&mut rng, &XzGenParams::small());
            if !s.blocks.is_empty() {
                break (s, d);
            }
        };
        let bi = rng.usize_below(spec.blocks.len());
        spec.blocks[bi].flags |= bits;
        let file = spec.serialize().0;
        must_refuse(&mut out, cov, 5, &format!("block {} flags |= {:#04x} [{}]", bi, bits, desc), &file, &mut rng);
    }
    out
}

/// several streams / stream padding (valid per the format, outside the subset)
fn fam_multi(ctx: &CaseCtx, cov: &mut Cov) -> CaseOut {
    let mut out = CaseOut::default();
    let mut rng = ctx.rng();
    let (s1, d1) = gen_xz(&mut rng, &XzGenParams::small());
    let (s2, d2) = gen_xz(&mut rng, &XzGenParams::small());
    let f1 = s1.serialize().0;
    let f2 = s2.serialize().0;
    let (feature, file, what, plain) = if ctx.index % 2 == 0 {
        let pad = if rng.chance(1, 2) { 4 * *rng.pick(&[0u64, 1, 2, 3, 7, 8, 16, 64, 256, 2048]) as usize } else { 0 };
        let mut f = f1.clone();
        f.extend(std::iter::repeat(0u8).take(pad));
        f.extend_from_slice(&f2);
        let mut p = s1.plain();
        p.extend_from_slice(&s2.plain());
        (7, f, format!("[{}] + {} padding bytes + [{}]", d1, pad, d2), p)
    } else {
        let pad = 4 * *rng.pick(&[1u64, 2, 3, 4, 8, 15, 16, 17, 32, 64, 128, 256, 1024, 2048, 4096]) as usize;
        let mut f = f1.clone();
        f.extend(std::iter::repeat(0u8).take(pad));
        (8, f, format!("[{}] + {} zero bytes", d1, pad), s1.plain())
    };
    let d = ll::xz_decode(&file, true);
    if !(d.ok() && d.out == plain) {
        out.harness_error(format!("liblzma (concatenated mode) does not accept the generated file (ret {})", d.ret));
        return out;
    }
    must_refuse(&mut out, cov, feature, &what, &file, &mut rng);
    out.sample = Some(J::obj().set("what", J::s(what)).set("file_len", J::i(file.len())));
    out
}

/// the unsupported feature sits in a LATER block of a multi-block file (the blocks
/// before it are perfectly fine and must not be reported as a success)
fn fam_later_block(ctx: &CaseCtx, cov: &mut Cov) -> CaseOut {
    let mut out = CaseOut::default();
    let mut rng = ctx.rng();
    let check = *rng.pick(&[0u8, 1, 4]);
    let nb = rng.range(2, 5) as usize;
    let mut blocks = valid_blocks(&mut rng, check, nb);
    let bi = rng.range(1, nb as u64 - 1) as usize;
    let kind = ctx.index % 3;
    let what;
    let feature;
    match kind {
        0 => {
            // a foreign filter (chain) in block bi
            let id: u64 = *rng.pick(&[0x03u64, 0x04, 0x05, 0x06, 0x07, 0x08, 0x09, 0x0A, 0x20, 0x22, 0x4000_0000_0000_0001]);
            let b = &blocks[bi];
            let lz = FilterSpec { id: 0x21, props: vec![xz::lzma2_dict_prop_for(b.plain.len() as u64)] };
            let foreign = FilterSpec { id, props: if id == 0x03 { vec![rng.byte()] } else { vec![] } };
            // R20-C18: the filter resolved for the previous block reused when the property bytes
            // are equal - so one variant copies the previous block's property bytes
            let prev_props = blocks[bi - 1].filters.last().map(|f| f.props.clone()).unwrap_or_default();
            let chain = match rng.below(6) {
                4 => {
                    cov.name("later_block_foreign_filter_with_the_previous_blocks_property_bytes", 1);
                    vec![FilterSpec { id, props: prev_props }]
                }
                5 => {
                    cov.name("later_block_foreign_filter_with_the_previous_blocks_property_bytes", 1);
                    vec![FilterSpec { id, props: prev_props.clone() }, FilterSpec { id: 0x21, props: prev_props }]
                }
                0 => vec![foreign],
                1 => vec![foreign, lz],
                2 => vec![foreign.clone(), foreign, lz],
                _ => vec![FilterSpec { id: 0x03, props: vec![0] }, foreign.clone(), foreign, lz],
            };
            let n = chain.len();
            let bo = BlockOpts { with_packed: b.packed_size.is_some(), with_unpacked: b.unpacked_size.is_some(), extra_header_words: 0, dict_prop: 0 };
            blocks[bi] = BlockSpec::with_filters(b.data.clone(), b.plain.clone(), check, &bo, chain);
            what = format!("block {} of {} uses a chain of {} filters with id {:#x}", bi, nb, n, id);
            feature = if id == 0x03 { 2 } else if (0x04..=0x0A).contains(&id) { 3 } else { 4 };
        }
        1 => {
            let bit = [0x04u8, 0x08, 0x10, 0x20][rng.usize_below(4)];
            blocks[bi].flags |= bit;
            what = format!("block {} of {}: flags |= {:#04x}", bi, nb, bit);
            feature = 5;
        }
        _ => {
            // SHA-256 file whose LAST block is empty (nothing to hash there)
            let mut bl = valid_blocks(&mut rng, 10, nb);
            let last = bl.len() - 1;
            bl[last] = BlockSpec::new(vec![0], vec![], 10, &BlockOpts::default());
            let spec = XzSpec::new(10, bl);
            let (file, _) = spec.serialize();
            let d = ll::xz_decode_ignore_check(&file);
            if !(d.ok() && d.out == spec.plain()) {
                out.harness_error("liblzma does not accept the generated SHA-256 file");
                return out;
            }
            must_refuse(&mut out, cov, 0, &format!("SHA-256 file with {} blocks, the last one empty", nb), &file, &mut rng);
            return out;
        }
    }
    let spec = XzSpec::new(check, blocks);
    let (file, _) = spec.serialize();
    cov.name("unsupported_feature_in_a_later_block", 1);
    must_refuse(&mut out, cov, feature, &what, &file, &mut rng);
    out.sample = Some(J::obj().set("what", J::s(what)).set("file_len", J::i(file.len())));
    out
}

fn label(group: &str, i: u32) -> String {
    match group {
        "feature" => FEATURES[i as usize].to_string(),
        "check_id" => format!("id{}", i),
        _ => std_label(group, i),
    }
}

fn floors(_: Tier, cov: &Cov) -> Vec<String> {
    let mut m = Vec::new();
    if cov.group_nonzero("feature") < FEATURES.len() {
        m.push(format!("only {}/{} unsupported features exercised", cov.group_nonzero("feature"), FEATURES.len()));
    }
    if cov.group_nonzero("check_id") < 16 {
        m.push("not all 16 check IDs".into());
    }
    m
}

pub fn monitor(tier: Tier) -> Monitor {
    Monitor {
        id: "C18",
        level: "exploration",
        rule: "cases = well-formed files using one feature outside the supported subset: ALL 65536 values of the two stream-flag bytes (same in header and footer, CRC32s repaired, blocks carrying the check field the low nibble announces) other than the check IDs proper, every combination of the reserved block-flag bits; each of the 16 check IDs x 0-3 blocks (digest correct for SHA-256), delta / six BCJ filters + LZMA2 written by liblzma, unknown filter IDs (every ID 0x00-0x5F, random large ones, and IDs that coincide with 0x21 in their low 8 / 16 / 32 bits), each reserved bit of block flags and stream flags (header = footer, CRCs repaired), two concatenated streams with 0-8192 padding bytes, stream padding of 4-16384 bytes, the unsupported feature placed in a LATER block of a multi-block file (foreign filter chains of 1-4 filters, also carrying exactly the property bytes of the block before, reserved block-flag bits, a SHA-256 file whose last block is empty); liblzma confirms well-formedness where it can; expected Err; distinct by hash of the file",
        assumptions: vec![
            "a SHA-256 file with zero blocks has nothing to verify: either verdict accepted there, success must deliver nothing (counted as lenient.sha256_zero_blocks)".into(),
            "unknown filter IDs cannot be confirmed by liblzma (it refuses them too)".into(),
        ],
        families: vec![
            Family { name: "check_ids", count: tier.pick(64 * 60, 64 * 2000), priority: true, enumerated: false, run: fam_checks },
            Family { name: "filters", count: tier.pick(6_000, 150_000), priority: false, enumerated: false, run: fam_filters },
            Family { name: "flags_exhaustive", count: tier.pick(272, 272 * 8), priority: true, enumerated: false, run: fam_flags_exhaustive },
            Family { name: "reserved_bits", count: tier.pick(15_000, 300_000), priority: false, enumerated: false, run: fam_reserved },
            Family { name: "later_block", count: tier.pick(6_000, 120_000), priority: false, enumerated: false, run: fam_later_block },
            Family { name: "multi_stream", count: tier.pick(15_000, 300_000), priority: false, enumerated: false, run: fam_multi },
        ],
        label,
        floors,
        summarize: no_summary,
    }
}

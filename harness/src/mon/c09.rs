//! C09 - Match references outside the produced window are always rejected.

use super::common::*;
use crate::gen::io::{ReaderKind, SharedSink};
use crate::gen::prog::{pick_len, ProgGen, ProgParams};
use crate::refmodel::lzma::{Encoder, Model, Props};
use crate::refmodel::lzma2::{self, Chunk};
use crate::refmodel::program::{Interp, Sym};
use crate::runner::*;
use crate::sut::{self, Entry, Verdict};
use crate::util::{Rng, J};
use lzma_rs::decompress::UnpackedSize;

fn rnd_props(rng: &mut Rng) -> Props {
    Props::new(rng.below(9) as u32, rng.below(5) as u32, rng.below(5) as u32)
}

/// position classes of the bad symbol relative to the window
const POS_CLASSES: [&str; 6] = [
    "before-any-output",
    "first-lap",
    "exactly-at-wrap",
    "just-after-wrap",
    "second-lap+",
    "tiny-prefix",
];
/// kinds of bad reference
const BAD_KINDS: [&str; 12] = [
    "match:produced+1",
    "match:produced+2",
    "match:dict+1(within produced)",
    "match:2*dict",
    "match:2^31",
    "match:2^32-1",
    "shortrep:first-symbol",
    "rep:first-symbol",
    "match:random-beyond",
    "match:dict exactly (beyond produced)",
    "match:between produced and dict",
    "match:dict+1 (beyond produced)",
];

/// Build prefix with about `target` bytes of output (distances <= dict).
fn prefix(rng: &mut Rng, target: usize, dict: u64) -> (Vec<Sym>, Interp) {
    let mut it = Interp::new();
    let mut pg = ProgGen::new();
    if target == 0 {
        return (vec![], it);
    }
    let mut pp = ProgParams::standard(usize::MAX / 2, dict);
    pp.max_out = target;
    pp.long_bias = target > 3000;
    let prog = pg.generate(rng, &pp, &mut it);
    (prog, it)
}

struct BadCase {
    props: Props,
    dict: u32,
    raw: bool,
    prog: Vec<Sym>,
    bad_at: usize,
    valid_out: Vec<u8>,
    pos_class: usize,
    bad_kind: usize,
    /// distance the bad symbol encodes
    bad_dist: u64,
    with_tail: bool,
}

fn build(rng: &mut Rng) -> Option<BadCase> {
    let props = rnd_props(rng);
    let raw = rng.chance(1, 2);
    let dict: u32 = if raw {
        *rng.pick(&[rng.clone().range(1, 64) as u32, 63, 64, 65, 127, 128, 255, 256])
    } else {
        *rng.pick(&[4096u32, 4096, 4097, 5000, 8191, 8192])
    };
    // one case in six declares a dictionary of a gigabyte or more (the window grows lazily, so
    // this costs nothing): distances are then compared with quantities near and above 2^31
    let huge = rng.chance(1, 6);
    let dict: u32 = if huge { *rng.pick(&[1u32 << 30, 0x7FFF_FFFF, 0x8000_0000, 0x8000_0001, 0xC000_0000, 0xFFFF_FFFE, 0xFFFF_FFFF]) } else { dict };
    let d = dict as u64;
    let pos_class = if huge { *rng.pick(&[0usize, 1, 1, 5]) } else { rng.usize_below(POS_CLASSES.len()) };
    let target: usize = match pos_class {
        0 => 0,
        1 if huge => rng.range(1, 6000) as usize,
        1 => rng.range(1, d.max(2) - 1) as usize,
        2 => d as usize,
        3 => d as usize + rng.range(1, 3) as usize,
        4 => (d * rng.range(1, 5) + rng.below(d)) as usize,
        _ => rng.range(1, 4) as usize,
    };
    let (mut prog, it) = prefix(rng, target, d);
    let n = it.hist.len() as u64;
    // which bad kinds are possible here
    let mut kinds: Vec<usize> = vec![4, 5];
    if 2 * d <= 0xFFFF_FFFF {
        kinds.push(3);
    }
    if n.max(d) + 1 <= 0xFFFF_FFFE {
        kinds.push(8);
    }
    if n + 1 <= 0xFFFF_FFFF {
        kinds.push(0);
        kinds.push(1);
    }
    if n > d {
        kinds.push(2);
        kinds.push(2);
    }
    if n < d {
        kinds.push(9);
        kinds.push(9);
        if d + 1 <= 0xFFFF_FFFF {
            kinds.push(11);
        }
    }
    if huge {
        // well inside the declared dictionary, beyond what exists
        kinds.extend_from_slice(&[0, 1, 1, 10, 10]);
    }
    if n + 2 < d {
        kinds.push(10);
    }
    if n == 0 {
        kinds.push(6);
        kinds.push(7);
        kinds.push(6);
        kinds.push(7);
    }
    let bad_kind = *rng.pick(&kinds);
    let len = pick_len(rng, false);
    let (bad, bad_dist): (Sym, u64) = match bad_kind {
        0 => (Sym::Match { dist: (n + 1) as u32, len }, n + 1),
        1 => (Sym::Match { dist: (n + 2) as u32, len }, n + 2),
        2 => {
            let dd = rng.range(d + 1, n);
            (Sym::Match { dist: dd as u32, len }, dd)
        }
        3 => {
            let dd = (2 * d).max(n + 1);
            (Sym::Match { dist: dd as u32, len }, dd)
        }
        4 => (Sym::Match { dist: 1 << 31, len }, 1 << 31),
        5 => (Sym::Match { dist: 0xFFFF_FFFF, len }, 0xFFFF_FFFF),
        6 => (Sym::ShortRep, 1),
        7 => (Sym::Rep { idx: rng.below(4) as u8, len }, 1),
        9 => (Sym::Match { dist: d as u32, len }, d),
        10 => {
            let dd = if rng.chance(1, 3) { d - 1 } else { rng.range(n + 2, d - 1) };
            (Sym::Match { dist: dd as u32, len }, dd)
        }
        11 => (Sym::Match { dist: (d + 1) as u32, len }, d + 1),
        _ => {
            let lo = n.max(d) + 1;
            let dd = rng.range(lo, 0xFFFF_FFFE);
            (Sym::Match { dist: dd as u32, len }, dd)
        }
    };
    let bad_at = prog.len();
    prog.push(bad);
    let with_tail = rng.chance(1, 2);
    if with_tail {
        for _ in 0..rng.range(1, 6) {
            prog.push(Sym::Lit(rng.byte()));
        }
    }
    Some(BadCase {
        props,
        dict,
        raw,
        prog,
        bad_at,
        valid_out: it.hist,
        pos_class,
        bad_kind,
        bad_dist,
        with_tail,
    })
}

fn fam_lzma(ctx: &CaseCtx, cov: &mut Cov) -> CaseOut {
    let mut out = CaseOut::default();
    let mut rng = ctx.rng();
    let bc = match build(&mut rng) {
        Some(b) => b,
        None => return out,
    };
    // encode, fabricating zeros for the bad copy so that a decoder lacking the
    // guard would run on to a clean end (and be caught returning Ok)
    let mut model = Model::new(bc.props);
    let mut hist = Vec::new();
    let mut enc = Encoder::new(&mut model, &mut hist);
    enc.allow_bad_ref = true;
    enc.fabricate = Some(0);
    let with_marker = rng.chance(1, 2);
    for (i, s) in bc.prog.iter().enumerate() {
        match enc.push(s) {
            Ok(ok) => {
                // kind 2 lies within the produced history (only the dictionary
                // size forbids it), so the unbounded-history encoder copies real bytes
                let expect_ok = i != bc.bad_at || bc.bad_kind == 2;
                if ok != expect_ok && i <= bc.bad_at {
                    out.harness_error(format!("symbol {} validity unexpected (ok={})", i, ok));
                    return out;
                }
            }
            Err(e) => {
                out.harness_error(format!("encode: {:?}", e));
                return out;
            }
        }
    }
    if with_marker {
        let _ = enc.push(&Sym::Eos);
    }
    let (payload, _table, _) = enc.finish();
    let fabricated_len = hist.len() as u64;
    // the sink's behaviour must not matter: a third of the runs use a sink that accepts only part
    // of each write (1 byte, or random counts)
    let sink = match rng.below(8) {
        0 => SharedSink::new().with(|s| s.short = 1),
        1 => {
            let seed = rng.next();
            SharedSink::new().with(|s| s.short_rng = Some(seed))
        }
        2 => {
            // a retryable interruption at one of the first writes (alone or between short writes)
            let k = rng.range(1, 4);
            let short = if rng.chance(1, 2) { rng.range(2, 9) as usize } else { 0 };
            SharedSink::new().with(|s| {
                s.fail_write_at = Some(k);
                s.fail_kind = Some(std::io::ErrorKind::Interrupted);
                s.short = short;
            })
        }
        _ => SharedSink::new(),
    };
    cov.name(if sink.0.borrow().fail_write_at.is_some() { "runs_with_sink_interrupted_once" } else if sink.0.borrow().short > 0 || sink.0.borrow().short_rng.is_some() { "runs_with_short_writing_sink" } else { "runs_with_plain_sink" }, 1);
    let obs = sut::new_obs(u64::MAX);
    let reader = if rng.chance(1, 4) { ReaderKind::random(&mut rng) } else { ReaderKind::Slice };
    let mut small_limit = false;
    let (verdict, input) = if bc.raw {
        let size = if with_marker { None } else { Some(fabricated_len) };
        match sut::raw_lzma_new(bc.props.lc, bc.props.lp, bc.props.pb, bc.dict, size, None) {
            Ok(mut dec) => (
                sut::raw_lzma_decompress(&mut dec, &payload, reader, &sink, &obs).verdict,
                payload.clone(),
            ),
            Err(v) => (v, payload.clone()),
        }
    } else {
        let hdr_dict = if bc.dict == 4096 { *rng.pick(&[0u32, 4096, 100]) } else { bc.dict };
        let mut file = sut::lzma_header(bc.props.byte(), hdr_dict, Some(if with_marker { None } else { Some(fabricated_len) }));
        file.extend_from_slice(&payload);
        // a generous memory limit must not change anything
        // ... and a limit below the window needed must produce an error of its own, never
        // a smaller window that silently aliases older bytes
        let memlimit = match rng.below(6) {
            0 | 1 => Some(*rng.pick(&[1usize << 20, 1 << 30, usize::MAX])),
            2 => {
                small_limit = true;
                Some(rng.range(1, bc.dict as u64) as usize)
            }
            _ => None,
        };
        let o = sut::opts(UnpackedSize::ReadFromHeader, memlimit, false);
        if rng.chance(1, 3) {
            // through the streaming decoder, in random pieces (bytes held back at the cut)
            cov.inc("window.circular(via Stream)", 0);
            let k = rng.range(0, 6) as usize;
            let cuts = super::streamdrv::cuts_random(&mut rng, file.len(), k);
            let run = super::streamdrv::drive(&file, &o, &cuts, &super::streamdrv::DriveOpts { flush_between: file.len() % 3 == 1, ..Default::default() }, &sink, &obs);
            (run.verdict, file)
        } else {
            (sut::decode(Entry::Lzma, &file, &o, reader, &sink, &obs).verdict, file)
        }
    };
    out.evals += 1;
    let o = obs.borrow();
    cov.inc("pos_class", bc.pos_class as u32);
    cov.inc("bad_kind", bc.bad_kind as u32);
    if bc.dict >= 1 << 30 {
        cov.name(if bc.dict > 1 << 31 { "declared_dictionary_above_2^31" } else { "declared_dictionary_2^30_to_2^31" }, 1);
    }
    cov.inc(if bc.raw { "window.circular(raw,dict1-64)" } else { "window.circular(header,dict4096)" }, 0);
    cov_from_obs(cov, &o);
    let got = sink.bytes();
    // did the decoder really decode the intended symbol?
    let reached = o.syms as usize == bc.bad_at + 1
        && o.last_sym.map(|(_, _, d, _)| d) == Some(bc.bad_dist);
    if reached {
        cov.name("bad_symbol_decoded_as_intended", 1);
        out.nontrivial.push(case_hash(&[&input, &bc.dict.to_le_bytes()]));
    }
    ctx.say(format!(
        "props {:?} dict {} raw {} prefix {} bytes, bad symbol #{} = {} ({} / {}), tail {}, marker {} -> {} ; sink {} bytes; syms decoded {}",
        bc.props, bc.dict, bc.raw, bc.valid_out.len(), bc.bad_at, bc.prog[bc.bad_at].short(),
        BAD_KINDS[bc.bad_kind], POS_CLASSES[bc.pos_class], bc.with_tail, with_marker, verdict.short(), got.len(), o.syms
    ));
    let data = J::obj()
        .set("input_hex", J::s(crate::util::hex_trunc(&input, 2048)))
        .set("bad_symbol", J::s(bc.prog[bc.bad_at].short()))
        .set("prefix_output_len", J::i(bc.valid_out.len()))
        .set("dict", J::i(bc.dict));
    match &verdict {
        Verdict::Err(_) => {
            let is_prefix = got.len() <= bc.valid_out.len() && got[..] == bc.valid_out[..got.len()];
            if !is_prefix {
                out.violate(
                    "C09/fabricated-bytes-before-error",
                    format!(
                        "{} at {} (dict {}): error reported but the sink received bytes that are not a prefix of the valid part: {}",
                        BAD_KINDS[bc.bad_kind], POS_CLASSES[bc.pos_class], bc.dict,
                        describe_mismatch(&bc.valid_out, &got)
                    ),
                    data,
                );
            } else if !reached && o.syms as usize > bc.bad_at + 1 {
                out.violate(
                    "C09/decoding-continued-past-bad-reference",
                    format!(
                        "{} at {}: decoder went on for {} symbols past the invalid copy before failing",
                        BAD_KINDS[bc.bad_kind], POS_CLASSES[bc.pos_class], o.syms as usize - bc.bad_at - 1
                    ),
                    data,
                );
            } else if !reached && small_limit {
                cov.name("stopped_earlier_by_a_small_memory_limit", 1);
            } else if !reached && o.syms as usize == bc.bad_at {
                // rejected while decoding the bad symbol, before the decoder announced it to the
                // hook (a decoder may validate a repeat distance before anything else): that is a
                // rejection at that point; whether the valid prefix decodes is C01's business
                cov.name("rejected_before_the_symbol_was_announced", 1);
            } else if !reached {
                out.harness_error(format!(
                    "decoder failed before reaching the bad symbol ({} of {} symbols): {}",
                    o.syms, bc.bad_at + 1, verdict.short()
                ));
            }
        }
        Verdict::Ok => out.violate(
            format!("C09/accepted/{}", BAD_KINDS[bc.bad_kind]),
            format!(
                "{} at {} (dict {}, {} window): stream with an out-of-window copy was accepted; {} bytes delivered, valid part is {} bytes",
                BAD_KINDS[bc.bad_kind], POS_CLASSES[bc.pos_class], bc.dict,
                if bc.raw { "raw" } else { "header" }, got.len(), bc.valid_out.len()
            ),
            data,
        ),
        other => out.violate(
            format!("C09/{}", verdict_sig(other)),
            format!("{} at {}: {}", BAD_KINDS[bc.bad_kind], POS_CLASSES[bc.pos_class], other.short()),
            data,
        ),
    }
    out.sample = Some(
        J::obj()
            .set("bad_symbol", J::s(bc.prog[bc.bad_at].short()))
            .set("kind", J::s(BAD_KINDS[bc.bad_kind]))
            .set("position", J::s(POS_CLASSES[bc.pos_class]))
            .set("dict", J::i(bc.dict))
            .set("prefix_output_len", J::i(bc.valid_out.len()))
            .set("verdict", J::s(verdict.short())),
    );
    out
}

const L2_KINDS: [&str; 5] = [
    "rep-inherited-across-dict-reset",
    "shortrep-inherited-across-dict-reset",
    "matched-literal-through-inherited-rep0",
    "match:history+1",
    "match:far-beyond",
];

/// accumulating window (LZMA2): references before the last dictionary reset
fn fam_lzma2(ctx: &CaseCtx, cov: &mut Cov) -> CaseOut {
    let mut out = CaseOut::default();
    let mut rng = ctx.rng();
    let props = loop {
        let p = rnd_props(&mut rng);
        if p.lc + p.lp <= 4 {
            break p;
        }
    };
    let kind = rng.usize_below(L2_KINDS.len());
    let mut chunks: Vec<Chunk> = Vec::new();
    // chunk 1: establishes reps with large distances; ends in a non-literal state
    let mut it = Interp::new();
    let mut pg = ProgGen::new();
    let mut pp = ProgParams::standard(rng.range(40, 300) as usize, u64::MAX);
    pp.w = [30, 20, 2, 2, 2, 2, 2];
    let mut p1 = pg.generate(&mut rng, &pp, &mut it);
    let big = it.hist.len() as u32;
    // make all four reps large, and finish with a match (state >= 7)
    for k in 0..4u32 {
        let s = Sym::Match { dist: big - k, len: 2 + k };
        it.step(&s);
        p1.push(s);
    }
    chunks.push(Chunk::Lzma { reset: 3, props, prog: p1 });
    let after_reset: usize = rng.range(1, 12) as usize;
    let bad: Sym;
    let valid_after: Vec<u8>;
    match kind {
        0 | 1 | 2 => {
            // dictionary reset by an uncompressed chunk, then an LZMA chunk that
            // inherits state and reps (lzma-rs parses this sequence)
            let data = rng.bytes(after_reset);
            valid_after = data.clone();
            chunks.push(Chunk::Raw { reset_dict: true, data });
            bad = match kind {
                0 => Sym::Rep { idx: rng.below(4) as u8, len: pick_len(&mut rng, false) },
                1 => Sym::ShortRep,
                _ => Sym::Lit(rng.byte()),
            };
            chunks.push(Chunk::Lzma { reset: 0, props, prog: vec![bad, Sym::Lit(1), Sym::Lit(2)] });
        }
        _ => {
            // plain over-long match inside a later chunk, after a mid-stream reset
            let mut it2 = Interp::new();
            let mut pg2 = ProgGen::new();
            let pp2 = ProgParams::standard(rng.range(1, 60) as usize, u64::MAX);
            let mut p2 = pg2.generate(&mut rng, &pp2, &mut it2);
            let n = it2.hist.len() as u64;
            valid_after = it2.hist.clone();
            let dist = if kind == 3 { n + 1 } else { rng.range(n + 1, 0xFFFF_FFFE) };
            bad = Sym::Match { dist: dist as u32, len: pick_len(&mut rng, false) };
            p2.push(bad);
            p2.push(Sym::Lit(7));
            chunks.push(Chunk::Lzma { reset: 3, props, prog: p2 });
        }
    }
    let w = match lzma2::write_with(&chunks, true) {
        Ok(w) => w,
        Err(e) => {
            out.harness_error(format!("lzma2 writer: {:?}", e));
            return out;
        }
    };
    let first_out = w.chunks[0].out_after;
    let mut valid = w.output[..first_out].to_vec();
    valid.extend_from_slice(&valid_after);
    let via_xz = rng.chance(1, 3);
    let input = if via_xz {
        use crate::refmodel::xz::{BlockOpts, BlockSpec, XzSpec};
        let b = BlockSpec::new(w.bytes.clone(), w.output.clone(), 0, &BlockOpts::default());
        XzSpec::new(0, vec![b]).serialize().0
    } else {
        w.bytes.clone()
    };
    // the sink's behaviour must not matter: a third of the runs use a sink that accepts only part
    // of each write (1 byte, or random counts)
    let sink = match rng.below(8) {
        0 => SharedSink::new().with(|s| s.short = 1),
        1 => {
            let seed = rng.next();
            SharedSink::new().with(|s| s.short_rng = Some(seed))
        }
        2 => {
            // a retryable interruption at one of the first writes (alone or between short writes)
            let k = rng.range(1, 4);
            let short = if rng.chance(1, 2) { rng.range(2, 9) as usize } else { 0 };
            SharedSink::new().with(|s| {
                s.fail_write_at = Some(k);
                s.fail_kind = Some(std::io::ErrorKind::Interrupted);
                s.short = short;
            })
        }
        _ => SharedSink::new(),
    };
    cov.name(if sink.0.borrow().fail_write_at.is_some() { "runs_with_sink_interrupted_once" } else if sink.0.borrow().short > 0 || sink.0.borrow().short_rng.is_some() { "runs_with_short_writing_sink" } else { "runs_with_plain_sink" }, 1);
    let obs = sut::new_obs(u64::MAX);
    let c = sut::decode(
        if via_xz { Entry::Xz } else { Entry::Lzma2 },
        &input,
        &sut::default_options(),
        ReaderKind::Slice,
        &sink,
        &obs,
    );
    out.evals += 1;
    cov.inc("l2_kind", kind as u32);
    cov.inc("window.accumulating(lzma2)", 0);
    if via_xz {
        cov.inc("window.accumulating(via xz)", 0);
    }
    let o = obs.borrow();
    cov_from_obs(cov, &o);
    let got = sink.bytes();
    if o.syms > 0 {
        out.nontrivial.push(case_hash(&[&input]));
    }
    ctx.say(format!(
        "{}: chunks {:?} via_xz {} -> {} ; sink {} bytes, valid part {} bytes",
        L2_KINDS[kind],
        chunks.iter().map(|c| c.short()).collect::<Vec<_>>(),
        via_xz,
        c.verdict.short(),
        got.len(),
        valid.len()
    ));
    let data = J::obj()
        .set("input_hex", J::s(crate::util::hex_trunc(&input, 2048)))
        .set("bad_symbol", J::s(bad.short()));
    match &c.verdict {
        Verdict::Err(_) => {
            // xz delivers nothing before the block is complete
            let is_prefix = got.len() <= valid.len() && got[..] == valid[..got.len()];
            if !is_prefix {
                out.violate(
                    "C09/lzma2/fabricated-bytes-before-error",
                    format!("{}: sink is not a prefix of the valid part: {}", L2_KINDS[kind], describe_mismatch(&valid, &got)),
                    data,
                );
            }
        }
        Verdict::Ok => out.violate(
            format!("C09/lzma2/accepted/{}", L2_KINDS[kind]),
            format!(
                "{}: accepted; delivered {} bytes although only {} are defined",
                L2_KINDS[kind],
                got.len(),
                valid.len()
            ),
            data,
        ),
        other => out.violate(
            format!("C09/lzma2/{}", verdict_sig(other)),
            format!("{}: {}", L2_KINDS[kind], other.short()),
            data,
        ),
    }
    out.sample = Some(
        J::obj()
            .set("kind", J::s(L2_KINDS[kind]))
            .set("chunks", J::Arr(chunks.iter().map(|c| J::s(c.short())).collect()))
            .set("via_xz", J::Bool(via_xz))
            .set("verdict", J::s(c.verdict.short())),
    );
    out
}

/// raw decoder used twice WITHOUT reset: the second decode starts with an empty
/// window but inherits automaton state and rep distances, so its first symbols
/// refer to bytes that were never produced in this window
fn fam_raw_reuse(ctx: &CaseCtx, cov: &mut Cov) -> CaseOut {
    let mut out = CaseOut::default();
    let mut rng = ctx.rng();
    let props = rnd_props(&mut rng);
    let dict: u32 = *rng.pick(&[64u32, 4096]);
    // first stream: ends right after a copy (state >= 7) with a large rep0
    let t1 = rng.range(20, 300) as usize;
    let (mut p1, it) = prefix(&mut rng, t1, dict as u64);
    let n = it.hist.len() as u32;
    if n < 8 {
        return out;
    }
    let d0 = n.min(dict) - rng.below(3) as u32;
    p1.push(Sym::Match { dist: d0, len: 2 + rng.below(6) as u32 });
    // half of the cases: the first stream goes on with a few literals (the automaton leaves the
    // "after a copy" states), and the second stream begins with up to three plain literals before
    // the symbol that reuses an inherited distance - larger than everything this window holds
    let k_lits = if rng.chance(1, 2) { rng.range(1, 4) as usize } else { 0 };
    for _ in 0..k_lits {
        p1.push(Sym::Lit(rng.byte()));
    }
    let j_lits = if k_lits > 0 { rng.below(4) as usize } else { 0 };
    let mut it1 = Interp::new();
    for s in &p1 {
        it1.step(s);
    }
    let (pay1, _, out1) = match crate::refmodel::lzma::encode_program(&p1, props) {
        Ok(x) => x,
        Err(e) => {
            out.harness_error(format!("{:?}", e));
            return out;
        }
    };
    // second stream, encoded as a continuation of the first one's model state but
    // against an EMPTY history: its first symbol needs a byte at distance rep0
    let kind = if j_lits > 0 || k_lits > 0 { 1 + rng.usize_below(2) } else { rng.usize_below(3) };
    let first = match kind {
        0 => Sym::Lit(rng.byte()),
        1 => Sym::ShortRep,
        // with bytes in the window only rep0 (the distance of the first stream's last copy) is
        // certain to reach beyond them
        _ => Sym::Rep { idx: if j_lits > 0 { 0 } else { rng.below(4) as u8 }, len: pick_len(&mut rng, false).min(out1.len() as u32).max(2) },
    };
    let mut model = Model::new(props);
    let mut h1 = Vec::new();
    {
        let mut e = Encoder::new(&mut model, &mut h1);
        for s in &p1 {
            let _ = e.push(s);
        }
    }
    let mut h2: Vec<u8> = Vec::new();
    let mut e2 = Encoder::new(&mut model, &mut h2);
    e2.allow_bad_ref = true;
    e2.fabricate = Some(0);
    let mut valid2: Vec<u8> = Vec::new();
    for _ in 0..j_lits {
        let b = rng.byte();
        valid2.push(b);
        let _ = e2.push(&Sym::Lit(b));
    }
    let _ = e2.push(&first);
    // the size in effect cannot be changed without reset: make the second stream
    // exactly as long as the first, so that a decoder lacking the guard reaches a
    // clean end (and is caught returning Ok with fabricated bytes)
    while e2.hist.len() < out1.len() {
        let _ = e2.push(&Sym::Lit(rng.byte()));
    }
    let (pay2, _, _) = e2.finish();
    let fabricated = h2.len() as u64;
    let mut dec = match sut::raw_lzma_new(props.lc, props.lp, props.pb, dict, Some(out1.len() as u64), None) {
        Ok(d) => d,
        Err(v) => {
            out.harness_error(v.short());
            return out;
        }
    };
    let sink1 = SharedSink::new();
    let c1 = sut::raw_lzma_decompress(&mut dec, &pay1, ReaderKind::Slice, &sink1, &sut::new_obs(u64::MAX));
    if !(c1.verdict.is_ok() && sink1.bytes() == out1) {
        out.harness_error(format!("first decode failed: {}", c1.verdict.short()));
        return out;
    }
    // no reset: only the expected size is not changeable without reset, so the second
    // stream is as long as the first one claims at most; use a decoder sized for it
    let _ = fabricated;
    let sink2 = SharedSink::new();
    let obs = sut::new_obs(u64::MAX);
    let c2 = sut::raw_lzma_decompress(&mut dec, &pay2, ReaderKind::Slice, &sink2, &obs);
    out.evals += 1;
    cov.inc("raw_reuse_first_symbol", kind as u32);
    cov.name(&format!("raw_reuse.{}_plain_literals_before_the_inherited_distance", j_lits), 1);
    cov.inc("window.circular(raw, second decode without reset)", 0);
    out.nontrivial.push(case_hash(&[&pay1, &pay2]));
    let got = sink2.bytes();
    ctx.say(format!("raw reuse without reset: first stream {} bytes out ending in {}, second starts with {} -> {} ({} bytes)", out1.len(), p1.last().unwrap().short(), first.short(), c2.verdict.short(), got.len()));
    match &c2.verdict {
        Verdict::Err(_) => {
            if !(got.len() <= valid2.len() && got[..] == valid2[..got.len()]) {
                out.violate(
                    "C09/raw-reuse/fabricated-bytes-before-error",
                    format!("second decode on a non-reset raw decoder delivered {} bytes although its first symbol ({}) refers to bytes never produced in this window", got.len(), first.short()),
                    J::obj().set("first_payload_hex", J::s(crate::util::hex_trunc(&pay1, 1024))).set("second_payload_hex", J::s(crate::util::hex_trunc(&pay2, 1024))),
                );
            }
        }
        other => out.violate(
            format!("C09/raw-reuse/{}", if other.is_ok() { "accepted".to_string() } else { verdict_sig(other) }),
            format!(
                "raw LzmaDecoder (dict {}) decoded a second stream without reset; after {} plain literals its symbol {} needs the byte at distance {} of a window holding {} bytes: {} with {} bytes delivered",
                dict, j_lits, first.short(), d0, j_lits, other.short(), got.len()
            ),
            J::obj().set("first_payload_hex", J::s(crate::util::hex_trunc(&pay1, 1024))).set("second_payload_hex", J::s(crate::util::hex_trunc(&pay2, 1024))),
        ),
    }
    out
}

fn label(group: &str, i: u32) -> String {
    match group {
        "pos_class" => POS_CLASSES[i as usize].to_string(),
        "bad_kind" => BAD_KINDS[i as usize].to_string(),
        "l2_kind" => L2_KINDS[i as usize].to_string(),
        "raw_reuse_first_symbol" => ["literal (matched through inherited rep0)", "short rep", "rep match"][i as usize].to_string(),
        g if g.starts_with("window.") => "cases".to_string(),
        _ => std_label(group, i),
    }
}

fn floors(_: Tier, cov: &Cov) -> Vec<String> {
    let mut m = Vec::new();
    if cov.group_nonzero("pos_class") < POS_CLASSES.len() {
        m.push("not every position class exercised".into());
    }
    if cov.group_nonzero("bad_kind") < BAD_KINDS.len() {
        m.push("not every bad-reference kind exercised".into());
    }
    if cov.group_nonzero("l2_kind") < L2_KINDS.len() {
        m.push("not every LZMA2 bad-reference kind exercised".into());
    }
    if cov.get_named("bad_symbol_decoded_as_intended") < 100 {
        m.push("hook saw the intended bad distance decoded fewer than 100 times".into());
    }
    m
}

pub fn monitor(tier: Tier) -> Monitor {
    Monitor {
        id: "C09",
        level: "exploration",
        rule: "cases = a valid random prefix program (output 0 .. 5 laps of the window) followed by exactly one copy whose distance is invalid (12 kinds incl. exactly the dictionary size / dictionary size +-1 while fewer bytes were produced) at 6 position classes relative to the wrap point, circular window via header (dict 4096) and raw decoder (dict 1..64), plus LZMA2 streams whose copy reaches before the last dictionary reset (5 kinds, also wrapped in .xz); encoded so that a decoder without the guard would reach a clean end; non-trivial = the Sym hook shows lzma-rs decoded the intended bad distance (LZMA) / decoded >= 1 symbol (LZMA2); distinct by hash of the input",
        assumptions: vec![
            "expected verdict Err by construction: interpret() of the prefix defines the only bytes that may reach the sink".into(),
            "the error may legitimately leave fewer bytes in the sink than were produced (the window is flushed lap-wise)".into(),
        ],
        families: vec![
            Family { name: "lzma", count: tier.pick(150_000, 3_000_000), priority: false, enumerated: false, run: fam_lzma },
            Family { name: "lzma2", count: tier.pick(40_000, 800_000), priority: false, enumerated: false, run: fam_lzma2 },
            Family { name: "raw_reuse", count: tier.pick(30_000, 500_000), priority: false, enumerated: false, run: fam_raw_reuse },
        ],
        label,
        floors,
        summarize: no_summary,
    }
}

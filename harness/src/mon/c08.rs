//! C08 - LZMA size and end-of-stream rules for every option combination.

use super::common::*;
use crate::gen::io::{ReaderKind, SharedSink};
use crate::gen::prog::{ProgGen, ProgParams};
use crate::refmodel::lzma::{decode as ref_decode, DecStop, Model, Props};
use crate::refmodel::program::{Interp, Sym};
use crate::runner::*;
use crate::sut::{self, Entry, Verdict};
use crate::util::{Rng, J};
use lzma_rs::decompress::{Options, Stream, UnpackedSize};
use std::io::Write;

#[derive(Clone, Debug, PartialEq, Eq)]
pub enum Expect {
    Ok(Vec<u8>),
    Err(&'static str),
    /// documented leniency: input ends at a symbol boundary with code 0 and no
    /// marker while no size is in effect; Ok(bytes) or Err both acceptable
    Either(Vec<u8>),
}

/// What the rules of C08 say about `payload` (everything after the header)
/// when `size` is in effect.
pub fn expected(props: Props, payload: &[u8], size: Option<u64>, dict: u64) -> (Expect, usize) {
    let mut model = Model::new(props);
    let mut hist = Vec::new();
    let r = ref_decode(&mut model, &mut hist, payload, size, dict);
    let e = match (size, r.stop) {
        (Some(_), DecStop::SizeReached) => Expect::Ok(hist),
        (Some(_), DecStop::Overshoot) => Expect::Err("a match overshoots the size in effect"),
        (Some(_), DecStop::Marker { .. }) => Expect::Err("end marker met before the size in effect"),
        (Some(_), DecStop::Truncated) => Expect::Err("input runs out before the size in effect"),
        (None, DecStop::Marker { code_zero }) => {
            if !code_zero {
                Expect::Err("end marker but range coder not finished")
            } else if r.consumed != payload.len() {
                Expect::Err("bytes after the end marker")
            } else {
                Expect::Ok(hist)
            }
        }
        (None, DecStop::CleanEnd) => Expect::Either(hist),
        (None, DecStop::Truncated) => Expect::Err("input ends without end marker"),
        (_, DecStop::BadRef) => Expect::Err("invalid distance"),
        (None, DecStop::SizeReached) | (None, DecStop::Overshoot) | (Some(_), DecStop::CleanEnd) => {
            Expect::Err("unreachable")
        }
    };
    (e, r.consumed)
}

const OPT_NAMES: [&str; 5] = [
    "ReadFromHeader",
    "ReadHeaderButUseProvided(None)",
    "ReadHeaderButUseProvided(Some)",
    "UseProvided(None)",
    "UseProvided(Some)",
];
const HFIELD_NAMES: [&str; 13] = ["all-ones", "len", "len-1", "len+1", "0", "2^63", "random", "all-ones with one bit cleared", "all-ones with one byte replaced", "low 32 bits all ones", "high 32 bits all ones", "len + k*2^32", "len + the end marker's length field (len+2 without marker)"];
const XSIZE_NAMES: [&str; 14] = ["len", "len-1", "len+1", "0", "mid-stream", "2^64-1", "2^64-2", "2^63", "2^32", "len+2^32", "2^64-1 with one bit cleared", "low 32 bits all ones", "high 32 bits all ones", "len + the end marker's length field (len+2 without marker)"];
const OUTCOME_NAMES: [&str; 8] = [
    "ok:size-reached",
    "ok:marker",
    "either:clean-end-no-marker",
    "err:overshoot",
    "err:marker-early",
    "err:input-exhausted",
    "err:after-marker/coder-unfinished",
    "err:other",
];

fn outcome_class(e: &Expect, size: Option<u64>) -> u32 {
    match e {
        Expect::Ok(_) => {
            if size.is_some() {
                0
            } else {
                1
            }
        }
        Expect::Either(_) => 2,
        Expect::Err(m) => match *m {
            "a match overshoots the size in effect" => 3,
            "end marker met before the size in effect" => 4,
            "input runs out before the size in effect" | "input ends without end marker" => 5,
            "bytes after the end marker" | "end marker but range coder not finished" => 6,
            _ => 7,
        },
    }
}

pub struct Built {
    pub file: Vec<u8>,
    pub hdr_len: usize,
    pub options: Options,
    pub size_in_effect: Option<u64>,
    pub props: Props,
    pub opt_idx: usize,
    pub hfield_idx: usize,
    pub xsize_idx: Option<usize>,
    pub true_len: u64,
    pub marker: bool,
    pub trailing: usize,
    pub desc: String,
    /// dictionary size in effect (header value clamped to 4096)
    pub dict_eff: u64,
}

/// Build one table cell: stream shape x header field x option x provided size x trailing.
pub fn build(rng: &mut Rng, tier: Tier) -> Option<Built> {
    let props = if rng.chance(1, 2) {
        Props::new(3, 0, 2)
    } else {
        Props::new(rng.below(9) as u32, rng.below(5) as u32, rng.below(5) as u32)
    };
    let mut it = Interp::new();
    let mut pg = ProgGen::new();
    let n_syms = if rng.chance(1, 8) { 0 } else { rng.range(1, tier.pick(120, 400)) as usize };
    let mut pp = ProgParams::standard(n_syms, 4096);
    pp.long_bias = rng.chance(1, 6);
    let mut prog = pg.generate(rng, &pp, &mut it);
    // sometimes: the output ends exactly on a multiple of the window size, with a
    // chosen kind of last symbol (the window is flushed at that very moment)
    let mut exact_end = false;
    if rng.chance(1, 5) {
        let target = 4096 * rng.range(1, 3) as usize;
        if !it.hist.is_empty() && it.hist.len() + 2 < target {
            let last_kind = rng.below(4);
            let last_len: usize = match last_kind {
                0 | 1 => 1,
                _ => rng.range(2, 273) as usize,
            };
            while it.hist.len() + last_len < target {
                let remaining = target - last_len - it.hist.len();
                let s = if remaining >= 2 && rng.chance(3, 4) {
                    Sym::Match { dist: rng.range(1, it.hist.len().min(4096) as u64) as u32, len: remaining.min(273).max(2) as u32 }
                } else {
                    Sym::Lit(rng.byte())
                };
                if let Sym::Match { len, .. } = s {
                    if len as usize > remaining {
                        let l = Sym::Lit(rng.byte());
                        it.step(&l);
                        prog.push(l);
                        continue;
                    }
                }
                it.step(&s);
                prog.push(s);
            }
            let last = match last_kind {
                0 => Sym::Lit(rng.byte()),
                1 => Sym::ShortRep,
                2 => Sym::Match { dist: rng.range(1, it.hist.len().min(4096) as u64) as u32, len: last_len as u32 },
                _ => Sym::Rep { idx: rng.below(4) as u8, len: last_len as u32 },
            };
            if it.step(&last) {
                prog.push(last);
                exact_end = it.hist.len() == target;
            }
        }
    }
    // often end with a long match so that len-1 falls inside it (overshoot)
    if !exact_end && !it.hist.is_empty() && rng.chance(1, 2) {
        let s = Sym::Match {
            dist: rng.range(1, it.hist.len().min(4096) as u64) as u32,
            len: rng.range(2, 273) as u32,
        };
        it.step(&s);
        prog.push(s);
    }
    let true_len = it.hist.len() as u64;
    let marker = rng.chance(1, 2);
    // optionally a marker placed early, with more symbols after it
    let early_marker = marker && rng.chance(1, 6);
    let mut full = prog.clone();
    if marker {
        full.push(Sym::Eos);
    }
    // the end marker is a match with distance 2^32 - 1 and ANY length: vary its length field
    let eos_len: u32 = if rng.chance(1, 2) { 2 } else { *rng.pick(&[3u32, 4, 9, 10, 17, 18, 100, 272, 273]) };
    let (payload, table, _) = match crate::refmodel::lzma::encode_program_eos_len(&full, props, eos_len) {
        Ok(x) => x,
        Err(_) => return None,
    };
    let mut payload = payload;
    if early_marker {
        // append a second, independent stream after the marker: trailing data
        payload.extend_from_slice(&rng.bytes(8));
    }
    let trailing = if early_marker {
        8
    } else if rng.chance(1, 3) {
        let n = rng.range(1, 6) as usize;
        let t = if rng.chance(1, 2) { vec![0u8; n] } else { rng.bytes(n) };
        payload.extend_from_slice(&t);
        n
    } else {
        0
    };
    // truncate sometimes
    let mut truncated = 0usize;
    if trailing == 0 && rng.chance(1, 6) && payload.len() > 5 {
        truncated = rng.range(1, (payload.len() - 5).min(12) as u64) as usize;
        payload.truncate(payload.len() - truncated);
    }
    let hfield_idx = rng.usize_below(HFIELD_NAMES.len());
    let hfield: u64 = match hfield_idx {
        0 => u64::MAX,
        1 => true_len,
        2 => true_len.wrapping_sub(1),
        3 => true_len + 1,
        4 => 0,
        5 => 1 << 63,
        7 => u64::MAX ^ (1u64 << rng.below(64)),
        8 => {
            let k = rng.below(8) * 8;
            (u64::MAX & !(0xFFu64 << k)) | (rng.below(255) << k)
        }
        9 => (rng.below(0xFFFF_FFFF) << 32) | 0xFFFF_FFFF,
        10 => 0xFFFF_FFFF_0000_0000 | rng.below(0xFFFF_FFFF),
        11 => true_len + (rng.range(1, 0xFFFF_FFFF) << 32),
        12 => true_len + eos_len as u64,
        _ => rng.next(),
    };
    let opt_idx = rng.usize_below(OPT_NAMES.len());
    let mut xsize_idx = None;
    let mut pick_x = |rng: &mut Rng| -> u64 {
        let i = rng.usize_below(XSIZE_NAMES.len());
        xsize_idx = Some(i);
        match i {
            0 => true_len,
            1 => true_len.saturating_sub(1),
            2 => true_len + 1,
            3 => 0,
            5 => u64::MAX,
            6 => u64::MAX - 1,
            7 => 1 << 63,
            8 => 1 << 32,
            9 => true_len + (1 << 32),
            10 => u64::MAX ^ (1u64 << rng.below(64)),
            11 => (rng.below(0xFFFF_FFFF) << 32) | 0xFFFF_FFFF,
            12 => 0xFFFF_FFFF_0000_0000 | rng.below(0xFFFF_FFFF),
            13 => true_len + eos_len as u64,
            _ => {
                // a symbol boundary or a point inside a symbol, somewhere in the middle
                if table.is_empty() {
                    0
                } else {
                    let r = table[rng.usize_below(table.len())].produced;
                    if rng.chance(1, 2) {
                        r
                    } else {
                        r.saturating_sub(1)
                    }
                }
            }
        }
    };
    let (us, size_in_effect, with_field) = match opt_idx {
        0 => (
            UnpackedSize::ReadFromHeader,
            if hfield == u64::MAX { None } else { Some(hfield) },
            true,
        ),
        1 => (UnpackedSize::ReadHeaderButUseProvided(None), None, true),
        2 => {
            let x = pick_x(rng);
            (UnpackedSize::ReadHeaderButUseProvided(Some(x)), Some(x), true)
        }
        3 => (UnpackedSize::UseProvided(None), None, false),
        _ => {
            let x = pick_x(rng);
            (UnpackedSize::UseProvided(Some(x)), Some(x), false)
        }
    };
    let dict = *rng.pick(&[4096u32, 0, 1 << 20]);
    let mut file = sut::lzma_header(props.byte(), dict, if with_field { Some(Some(hfield)) } else { None });
    if with_field && hfield == u64::MAX {
        // lzma_header encodes Some(None) as all-ones; Some(Some(MAX)) is the same bytes
    }
    let hdr_len = file.len();
    file.extend_from_slice(&payload);
    let desc = format!(
        "lc{} lp{} pb{} | {} syms, true length {}, marker {}{} | header field {} | option {}{} | trailing {} truncated {}",
        props.lc,
        props.lp,
        props.pb,
        prog.len(),
        true_len,
        marker,
        if early_marker { " (followed by 8 more bytes)" } else { "" },
        HFIELD_NAMES[hfield_idx],
        OPT_NAMES[opt_idx],
        xsize_idx.map(|i| format!(" x={}", XSIZE_NAMES[i])).unwrap_or_default(),
        trailing,
        truncated
    );
    Some(Built {
        file,
        hdr_len,
        options: sut::opts(us, None, false),
        size_in_effect,
        props,
        opt_idx,
        hfield_idx,
        xsize_idx,
        true_len,
        marker,
        trailing,
        desc,
        dict_eff: (dict as u64).max(4096),
    })
}

/// a memory limit that just covers the window a successful decode needs (min(dictionary, bytes
/// produced), plus 0, 1 or 17); None where the expected outcome is an error
fn tight_limit(exp: &Expect, dict_eff: u64, salt: usize) -> Option<usize> {
    match exp {
        Expect::Ok(v) | Expect::Either(v) => Some((v.len() as u64).min(dict_eff) as usize + [0usize, 1, 17][salt % 3]),
        Expect::Err(_) => None,
    }
}

/// Feed a whole file to the streaming decoder under a chunking; returns the
/// verdict and the bytes the sink holds afterwards.
pub fn run_stream(file: &[u8], options: &Options, cuts: &[usize]) -> (Verdict, Vec<u8>) {
    let sink = SharedSink::new();
    let sink2 = sink.clone();
    let r = sut::guarded(|| {
        let mut s = Stream::new_with_options(options, sink2);
        let mut start = 0usize;
        let mut bounds: Vec<usize> = cuts.to_vec();
        bounds.push(file.len());
        for &end in &bounds {
            let mut piece = &file[start..end.max(start)];
            while !piece.is_empty() {
                match s.write(piece) {
                    Ok(0) => {
                        // nothing consumed: the declared size has been reached
                        piece = &[];
                    }
                    Ok(n) => piece = &piece[n..],
                    Err(e) => return Err(format!("write: {}", e)),
                }
            }
            start = end.max(start);
            // a third of the runs (decided by the input) call flush() after every piece: whatever
            // flush hands over early, the sink must end up with exactly the size in effect
            if file.len() % 3 == 1 {
                use std::io::Write;
                if let Err(e) = s.flush() {
                    return Err(format!("flush: {}", e));
                }
            }
        }
        s.finish().map(|_| ()).map_err(|e| e.to_string())
    });
    let v = match r {
        Ok(Ok(())) => Verdict::Ok,
        Ok(Err(e)) => Verdict::Err(e),
        Err(v) => v,
    };
    (v, sink.bytes())
}

fn judge(
    out: &mut CaseOut,
    b: &Built,
    exp: &Expect,
    api: &str,
    verdict: &Verdict,
    got: &[u8],
    file: &[u8],
) {
    let data = || {
        J::obj()
            .set("input_hex", J::s(crate::util::hex_trunc(file, 2048)))
            .set("case", J::s(b.desc.as_str()))
            .set("api", J::s(api))
    };
    let cell = format!(
        "{}/{}{}",
        OPT_NAMES[b.opt_idx],
        HFIELD_NAMES[b.hfield_idx],
        b.xsize_idx.map(|i| format!("/x={}", XSIZE_NAMES[i])).unwrap_or_default()
    );
    match (exp, verdict) {
        (_, v) if v.is_abnormal() => out.violate(
            format!("C08/{}/{}", api, verdict_sig(v)),
            format!("{}: {} [{}]", api, v.short(), b.desc),
            data(),
        ),
        (Expect::Ok(e), Verdict::Ok) | (Expect::Either(e), Verdict::Ok) => {
            if got != &e[..] {
                out.violate(
                    format!("C08/{}/ok-with-wrong-bytes", api),
                    format!(
                        "{}: success but {} [{}; cell {}]",
                        api,
                        describe_mismatch(e, got),
                        b.desc,
                        cell
                    ),
                    data(),
                );
            }
        }
        (Expect::Either(_), Verdict::Err(_)) => {}
        (Expect::Ok(e), Verdict::Err(m)) => out.violate(
            format!("C08/{}/rejected-valid/{}", api, if b.size_in_effect.is_some() { "size" } else { "marker" }),
            format!(
                "{}: must succeed with {} bytes but failed: {} [{}; cell {}]",
                api,
                e.len(),
                m,
                b.desc,
                cell
            ),
            data(),
        ),
        (Expect::Err(why), Verdict::Ok) => out.violate(
            format!("C08/{}/accepted/{}", api, why),
            format!(
                "{}: must fail ({}) but succeeded with {} bytes [{}; cell {}]",
                api,
                why,
                got.len(),
                b.desc,
                cell
            ),
            data(),
        ),
        (Expect::Err(_), Verdict::Err(_)) => {}
        _ => {}
    }
}

fn fam_table(ctx: &CaseCtx, cov: &mut Cov) -> CaseOut {
    let mut out = CaseOut::default();
    let mut rng = ctx.rng();
    let b = match build(&mut rng, ctx.tier) {
        Some(b) => b,
        None => {
            out.harness_error("could not build case");
            return out;
        }
    };
    let payload = &b.file[b.hdr_len..];
    let (exp, ref_consumed) = expected(b.props, payload, b.size_in_effect, b.dict_eff);
    // one-shot
    let sink = SharedSink::new();
    let obs = sut::new_obs(u64::MAX);
    // the one-shot decoder has no notion of "incomplete input allowed" (that flag belongs to the
    // streaming decoder), and a generous memory limit changes nothing: a third of the runs set them
    let mut o1 = b.options.clone();
    match rng.below(6) {
        0 | 1 => {
            o1.allow_incomplete = true;
            cov.name("oneshot_runs_with_allow_incomplete_set", 1);
        }
        2 => {
            o1.memlimit = Some(usize::MAX);
            cov.name("oneshot_runs_with_generous_memlimit", 1);
        }
        3 => {
            // a limit that just covers the window this decode needs - below the dictionary and
            // often below what the header's size field announces: it must not bind
            if let Some(m) = tight_limit(&exp, b.dict_eff, b.file.len()) {
                o1.memlimit = Some(m);
                cov.name("oneshot_runs_with_a_memlimit_just_covering_the_window_needed", 1);
            }
        }
        _ => {}
    }
    let c = sut::decode(Entry::Lzma, &b.file, &o1, ReaderKind::from_selector(case_hash(&[&b.file])), &sink, &obs);
    out.evals += 1;
    let got = sink.bytes();
    ctx.say(&b.desc);
    ctx.say(format!("expected {:?}", match &exp { Expect::Ok(v) => format!("Ok({} bytes)", v.len()), Expect::Either(v) => format!("Either({} bytes)", v.len()), Expect::Err(w) => format!("Err({})", w) }));
    ctx.say(format!("one-shot: {} with {} bytes", c.verdict.short(), got.len()));
    judge(&mut out, &b, &exp, "oneshot", &c.verdict, &got, &b.file);
    // header consumption: 13 / 13 / 5 bytes, then exactly the coder's bytes
    if let (Expect::Ok(_), Verdict::Ok, Some(_)) = (&exp, &c.verdict, b.size_in_effect) {
        let want = b.hdr_len + ref_consumed;
        cov.inc("hdr_len_checked", b.hdr_len as u32);
        if c.consumed != want {
            out.violate(
                format!("C08/header-consumption/{}", OPT_NAMES[b.opt_idx]),
                format!(
                    "{} consumed {} bytes, expected {} header + {} payload [{}]",
                    OPT_NAMES[b.opt_idx], c.consumed, b.hdr_len, ref_consumed, b.desc
                ),
                J::obj().set("input_hex", J::s(crate::util::hex_trunc(&b.file, 2048))),
            );
        }
    }
    // raw decoder object whose size in effect was established through a HISTORY of resets
    // (R20-C08: reset(None) fell back to the construction-time size): constructed for another
    // size, then reset(Some(x)) [, reset(None)] [after an earlier decode]; same table
    if b.dict_eff <= u32::MAX as u64 && case_hash(&[&b.file]) % 3 == 0 {
        let ctor = match rng.below(3) {
            0 => None,
            1 => Some(b.true_len + 3),
            _ => Some(1),
        };
        if let Ok(mut d) = sut::raw_lzma_new(b.props.lc, b.props.lp, b.props.pb, b.dict_eff as u32, ctor, None) {
            let variant = rng.below(3);
            if variant == 2 {
                let _ = sut::raw_lzma_decompress(&mut d, &payload[..payload.len() / 2], ReaderKind::Slice, &SharedSink::counting_only(), &sut::new_obs(u64::MAX));
            }
            let mut ok = sut::guarded(|| d.reset(Some(b.size_in_effect))).is_ok();
            if variant >= 1 {
                ok = ok && sut::guarded(|| d.reset(None)).is_ok();
            }
            if ok {
                let rsink = SharedSink::new();
                let robs = sut::new_obs(u64::MAX);
                let rc = sut::raw_lzma_decompress(&mut d, payload, ReaderKind::Slice, &rsink, &robs);
                out.evals += 1;
                cov.name(["raw_decoder.new(other size);reset(Some(x))", "raw_decoder.new(other size);reset(Some(x));reset(None)", "raw_decoder.new(other size);decompress;reset(Some(x));reset(None)"][variant as usize], 1);
                judge(&mut out, &b, &exp, "raw decoder after resets", &rc.verdict, &rsink.bytes(), &b.file);
            } else {
                out.violate("C08/raw decoder/reset-panicked".to_string(), format!("reset panicked [{}]", b.desc), J::Null);
            }
        }
    }
    // streaming decoder: same table
    let cuts: Vec<usize> = if rng.chance(1, 2) {
        vec![]
    } else {
        let mut v: Vec<usize> = (0..rng.range(1, 4)).map(|_| rng.usize_below(b.file.len() + 1)).collect();
        v.sort();
        v
    };
    let mut so = b.options.clone();
    if b.file.len() % 5 == 2 {
        if let Some(m) = tight_limit(&exp, b.dict_eff, b.file.len()) {
            so.memlimit = Some(m);
            cov.name("stream_runs_with_a_memlimit_just_covering_the_window_needed", 1);
        }
    }
    let (sv, sgot) = run_stream(&b.file, &so, &cuts);
    out.evals += 1;
    ctx.say(format!("stream (cuts {:?}): {} with {} bytes", cuts, sv.short(), sgot.len()));
    judge(&mut out, &b, &exp, "stream", &sv, &sgot, &b.file);
    cov.inc("option", b.opt_idx as u32);
    cov.inc("header_field", b.hfield_idx as u32);
    if let Some(x) = b.xsize_idx {
        cov.inc("provided_size", x as u32);
    }
    cov.inc("expected_outcome", outcome_class(&exp, b.size_in_effect));
    cov.add("table_cell", (b.opt_idx * 1000 + b.hfield_idx * 20 + b.xsize_idx.map(|x| x + 1).unwrap_or(0)) as u32, 1);
    cov.name(if b.marker { "stream.with_marker" } else { "stream.without_marker" }, 1);
    if b.trailing > 0 {
        cov.name("stream.with_trailing_bytes", 1);
    }
    if obs.borrow().syms > 0 || b.true_len == 0 {
        out.nontrivial.push(case_hash(&[&b.file, &[b.opt_idx as u8], &b.size_in_effect.unwrap_or(u64::MAX).to_le_bytes()]));
    }
    out.sample = Some(J::obj().set("case", J::s(b.desc.as_str())).set(
        "expected",
        J::s(match &exp {
            Expect::Ok(v) => format!("Ok({} bytes)", v.len()),
            Expect::Either(v) => format!("Ok({} bytes) or Err (documented leniency)", v.len()),
            Expect::Err(w) => format!("Err: {}", w),
        }),
    ));
    out
}

/// the three header options consume 13, 13 and 5 header bytes: size-0 streams
fn fam_hdr(ctx: &CaseCtx, cov: &mut Cov) -> CaseOut {
    let mut out = CaseOut::default();
    let mut rng = ctx.rng();
    let props = Props::new(rng.below(9) as u32, rng.below(5) as u32, rng.below(5) as u32);
    let which = (ctx.index % 3) as usize;
    let (us, with_field, want_hdr) = match which {
        0 => (UnpackedSize::ReadFromHeader, true, 13),
        1 => (UnpackedSize::ReadHeaderButUseProvided(Some(0)), true, 13),
        _ => (UnpackedSize::UseProvided(Some(0)), false, 5),
    };
    let field = if which == 0 { 0 } else { rng.next() };
    let mut file = sut::lzma_header(props.byte(), rng.next() as u32, if with_field { Some(Some(field)) } else { None });
    let tn = rng.range(5, 40) as usize;
    let tail = rng.bytes(tn);
    file.extend_from_slice(&tail);
    let reader = ReaderKind::random(&mut rng);
    let sink = SharedSink::new();
    let obs = sut::new_obs(u64::MAX);
    let c = sut::decode(Entry::Lzma, &file, &sut::opts(us, None, false), reader, &sink, &obs);
    out.evals += 1;
    cov.inc("hdr_bytes", want_hdr as u32);
    out.nontrivial.push(case_hash(&[&file, &[which as u8]]));
    let want = want_hdr + 5;
    if !c.verdict.is_ok() || c.consumed != want || sink.len() != 0 {
        out.violate(
            format!("C08/header-bytes/{}", ["ReadFromHeader", "ReadHeaderButUseProvided", "UseProvided"][which]),
            format!(
                "size-0 stream: expected Ok, {} bytes consumed ({} header + 5 coder preamble), got {} with {} consumed, {} output bytes (reader {})",
                want, want_hdr, c.verdict.short(), c.consumed, sink.len(), reader.name()
            ),
            J::obj().set("input_hex", J::s(crate::util::hex(&file))),
        );
    }
    out
}

fn label(group: &str, i: u32) -> String {
    match group {
        "option" => OPT_NAMES[i as usize].to_string(),
        "header_field" => HFIELD_NAMES[i as usize].to_string(),
        "provided_size" => XSIZE_NAMES[i as usize].to_string(),
        "expected_outcome" => OUTCOME_NAMES[i as usize].to_string(),
        "table_cell" => {
            let (o, h, x) = ((i / 1000) as usize, ((i % 1000) / 20) as usize, (i % 20) as usize);
            format!(
                "{}|{}|{}",
                OPT_NAMES[o],
                HFIELD_NAMES[h],
                if x == 0 { "-" } else { XSIZE_NAMES[x - 1] }
            )
        }
        "hdr_bytes" | "hdr_len_checked" => format!("{}-byte header", i),
        _ => std_label(group, i),
    }
}

fn floors(_: Tier, cov: &Cov) -> Vec<String> {
    let mut m = Vec::new();
    if cov.group_nonzero("expected_outcome") < 7 {
        m.push(format!("only {}/7 outcome classes produced", cov.group_nonzero("expected_outcome")));
    }
    if cov.group_nonzero("option") < 5 || cov.group_nonzero("header_field") < HFIELD_NAMES.len() || cov.group_nonzero("provided_size") < XSIZE_NAMES.len() {
        m.push("option/header-field/provided-size table not fully covered".into());
    }
    m
}

pub fn monitor(tier: Tier) -> Monitor {
    Monitor {
        id: "C08",
        level: "exploration",
        rule: "cases = table cells (5 option shapes x 13 header-field values (incl. values next to the all-ones sentinel: one bit cleared, one byte replaced, only the low / only the high 32 bits all ones, len + k*2^32, len + the end marker's length field) x 14 provided sizes incl. 2^64-1, 2^64-2, 2^63, 2^32, len+2^32 and the same near-sentinel shapes) over generated streams (with/without end marker, the marker's own length field 2..273, marker early, long final match, trailing bytes, truncation), each decided by the reference decoder run with the size in effect, executed through lzma_decompress_with_options and through Stream (whole and in random pieces); plus size-0 streams checking the 13/13/5 header bytes under all reader kinds; non-trivial = lzma-rs decoded >= 1 symbol (hook) or the stream is the empty stream; distinct by hash of (file, option, size in effect)",
        assumptions: vec![
            "oracle = reference decoder (self-checked against liblzma) applying the rules of the statement".into(),
            "documented leniency, not alarmed on: with no size in effect lzma-rs also accepts input ending at a symbol boundary with range-coder code 0 and no marker (either verdict accepted there; bytes must still be exact)".into(),
        ],
        families: vec![
            Family { name: "hdr_bytes", count: tier.pick(600, 6000), priority: true, enumerated: false, run: fam_hdr },
            Family { name: "table", count: tier.pick(300_000, 6_000_000), priority: false, enumerated: false, run: fam_table },
        ],
        label,
        floors,
        summarize: |cov| J::obj().set("table_cells_hit", J::i(cov.group_nonzero("table_cell"))),
    }
}

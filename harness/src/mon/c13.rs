//! C13 - Results do not depend on how the input reader fragments its data.

use super::common::*;
use super::{c05, c08};
use crate::gen::io::{ReaderKind, SharedSink};
use crate::gen::l2gen::{gen_chunks, L2Params};
use crate::gen::xzgen::{gen_xz, XzGenParams};
use crate::refmodel::lzma2;
use crate::refmodel::xz::BlockOpts;
use crate::runner::*;
use crate::sut::{self, Entry, Verdict};
use crate::util::{Rng, J};
use lzma_rs::decompress::raw::Lzma2Decoder;
use lzma_rs::decompress::Options;

const DEC: [&str; 5] = ["lzma_decompress_with_options", "lzma2_decompress", "xz_decompress", "raw LzmaDecoder", "raw Lzma2Decoder"];
const SRC: [&str; 10] = [
    "lzma: C08 table cell",
    "lzma: C05 input (flipped / spliced / garbage / liblzma / ...)",
    "lzma2: valid chunk sequence (+ trailing)",
    "lzma2: mutated chunk sequence",
    "xz: valid file",
    "xz: valid file with big header padding",
    "xz: bit-flipped / truncated / extended file",
    "random bytes",
    "a valid file followed by (a prefix of) another valid file of the same kind",
    "xz: one field wrong (padding bytes, sizes, flags, counts ...), enclosing CRCs recomputed",
];

struct Input {
    dec: usize,
    data: Vec<u8>,
    options: Options,
    src: usize,
    desc: String,
    raw: Option<(u32, u32, u32, u32, Option<u64>)>,
    /// structural offsets of the input (field boundaries), when known
    offsets: Vec<usize>,
}

fn mutate(rng: &mut Rng, data: &mut Vec<u8>) -> String {
    if data.is_empty() {
        data.push(rng.byte());
        return "one byte added".into();
    }
    match rng.below(5) {
        0 => {
            let p = rng.usize_below(data.len());
            let b = rng.below(8);
            data[p] ^= 1 << b;
            format!("bit {} of byte {} flipped", b, p)
        }
        1 => {
            let n = rng.usize_below(data.len());
            data.truncate(n);
            format!("truncated to {}", n)
        }
        2 => {
            let n = rng.range(1, 12) as usize;
            let t = if rng.chance(1, 2) { vec![0u8; n] } else { rng.bytes(n) };
            data.extend_from_slice(&t);
            format!("{} bytes appended", n)
        }
        3 => {
            let p = rng.usize_below(data.len());
            data[p] = *rng.pick(&[0u8, 0xFF, 0x80, 1]);
            format!("byte {} overwritten", p)
        }
        _ => {
            let p = rng.usize_below(data.len());
            let n = rng.range(1, 6) as usize;
            let end = (p + n).min(data.len());
            data.drain(p..end);
            format!("{} bytes removed at {}", end - p, p)
        }
    }
}

fn gen(rng: &mut Rng, tier: Tier) -> Input {
    loop {
        let src = rng.usize_below(SRC.len());
        match src {
            0 => {
                if let Some(b) = c08::build(rng, tier) {
                    // sometimes through the raw decoder (payload only)
                    if rng.chance(1, 5) {
                        let size = super::streamdrv::size_in_effect(&b.file, &b.options);
                        return Input {
                            dec: 3,
                            data: b.file[b.hdr_len..].to_vec(),
                            options: b.options,
                            src,
                            desc: format!("raw payload of: {}", b.desc),
                            raw: Some((b.props.lc, b.props.lp, b.props.pb, *rng.pick(&[7u32, 64, 4096]), size)),
                            offsets: vec![],
                        };
                    }
                    return Input { dec: 0, data: b.file, options: b.options, src, desc: b.desc, raw: None, offsets: vec![] };
                }
            }
            1 => {
                if let Some(i) = c05::gen_input(rng, tier, 3000) {
                    return Input { dec: 0, data: i.file, options: i.options, src, desc: i.desc, raw: None, offsets: vec![] };
                }
            }
            2 | 3 => {
                let n = rng.range(1, 5) as usize;
                let chunks = gen_chunks(rng, &L2Params::standard(n, 100));
                if let Ok(w) = lzma2::write(&chunks) {
                    let mut data = w.bytes;
                    let mut desc = chunks.iter().map(|c| c.short()).collect::<Vec<_>>().join(" ");
                    if src == 3 {
                        desc = format!("{} | {}", desc, mutate(rng, &mut data));
                    } else if rng.chance(1, 2) {
                        let n = rng.range(1, 9) as usize;
                        data.extend_from_slice(&rng.bytes(n));
                        desc = format!("{} | {} trailing bytes", desc, n);
                    }
                    return Input { dec: if rng.chance(1, 2) { 1 } else { 4 }, data, options: sut::default_options(), src, desc, raw: None, offsets: vec![] };
                }
            }
            4 | 5 | 6 => {
                let mut p = XzGenParams::small();
                p.big_headers = src == 5;
                let (mut spec, mut desc) = gen_xz(rng, &p);
                if src == 5 {
                    // header padding lengths around typical buffer sizes
                    for b in spec.blocks.iter_mut() {
                        // up to the format's maximum (1024 bytes): paddings of 256 bytes and more
                        // are longer than what a one-byte length can count
                        let words = if rng.chance(1, 3) { *rng.pick(&[63usize, 64, 65, 100, 127, 128, 129, 192, 200, 250]) } else { rng.range(1, 40) as usize };
                        let nb = crate::refmodel::xz::BlockSpec::new(
                            b.data.clone(),
                            b.plain.clone(),
                            spec.header_flags[1],
                            &BlockOpts { with_packed: b.packed_size.is_some(), with_unpacked: b.unpacked_size.is_some(), extra_header_words: words, dict_prop: 0 },
                        );
                        *b = nb;
                    }
                    let blocks = spec.blocks.clone();
                    spec = crate::refmodel::xz::XzSpec::new(spec.header_flags[1], blocks);
                    desc = format!("{} | header padding enlarged", desc);
                }
                let (mut data, layout) = spec.serialize();
                let offsets: Vec<usize> = layout.fields.iter().flat_map(|f| [f.start, f.end]).collect();
                if src == 6 {
                    desc = format!("{} | {}", desc, mutate(rng, &mut data));
                }
                return Input { dec: 2, data, options: sut::default_options(), src, desc, raw: None, offsets };
            }
            9 => {
                // invalid only in ONE field, everything that covers it re-sealed: the verdict then
                // rests on that field's own validation (e.g. a padding scan), which must not depend
                // on how the reader cuts the input
                let mut p = XzGenParams::small();
                p.big_headers = rng.chance(1, 2);
                let (spec, desc) = gen_xz(rng, &p);
                let ms = super::c06::field_mutants(&spec);
                if ms.is_empty() {
                    continue;
                }
                // padding-type fields are the ones validated by scanning: favour them
                let pads: Vec<&super::c06::Mutant> = ms.iter().filter(|m| m.field.contains("padding")).collect();
                let m = if !pads.is_empty() && rng.chance(1, 2) { pads[rng.usize_below(pads.len())] } else { &ms[rng.usize_below(ms.len())] };
                let (data, layout) = m.spec.serialize();
                let offsets: Vec<usize> = layout.fields.iter().flat_map(|f| [f.start, f.end]).collect();
                return Input { dec: 2, data, options: sut::default_options(), src, desc: format!("{} | field {} {}", desc, m.field, m.class), raw: None, offsets };
            }
            8 => {
                // what follows the end of a complete file looks like the start of another
                let kind = rng.usize_below(3);
                let mk = |rng: &mut Rng| -> Option<(Vec<u8>, Options)> {
                    match kind {
                        0 => c08::build(rng, tier).map(|b| (b.file, b.options)),
                        1 => lzma2::write(&gen_chunks(rng, &L2Params::standard(2, 60))).ok().map(|w| (w.bytes, sut::default_options())),
                        _ => Some((gen_xz(rng, &XzGenParams::small()).0.serialize().0, sut::default_options())),
                    }
                };
                let (a, o) = match mk(rng) {
                    Some(x) => x,
                    None => continue,
                };
                let (b, _) = match mk(rng) {
                    Some(x) => x,
                    None => continue,
                };
                let mut data = a.clone();
                if kind == 2 && rng.chance(1, 3) {
                    data.extend(std::iter::repeat(0u8).take(4 * rng.range(1, 4) as usize));
                }
                let take = if rng.chance(1, 2) { b.len() } else { rng.range(1, b.len().min(14) as u64) as usize };
                data.extend_from_slice(&b[..take]);
                let dec = [0usize, if rng.chance(1, 2) { 1 } else { 4 }, 2][kind];
                return Input { dec, data, options: o, src, desc: format!("complete input of {} bytes followed by the first {} of {} bytes of another one", a.len(), take, b.len()), raw: None, offsets: vec![a.len()] };
            }
            _ => {
                let n = rng.range(0, 200) as usize;
                let mut data = rng.bytes(n);
                let dec = rng.usize_below(3);
                if dec == 2 && n >= 12 && rng.chance(1, 2) {
                    data[..6].copy_from_slice(&crate::refmodel::xz::HEADER_MAGIC);
                }
                return Input { dec, data, options: sut::default_options(), src, desc: format!("{} random bytes", n), raw: None, offsets: vec![] };
            }
        }
    }
}

struct Res {
    verdict: Verdict,
    out: Vec<u8>,
    consumed: usize,
}

fn run(inp: &Input, rk: ReaderKind) -> Res {
    // the same (input-determined) sink behaviour under every reader
    let sink = SharedSink::varied(case_hash(&[&inp.data]) >> 8, inp.data.len() * 16);
    let obs = sut::new_obs(u64::MAX);
    let c = match inp.dec {
        0 => sut::decode(Entry::Lzma, &inp.data, &inp.options, rk, &sink, &obs),
        1 => sut::decode(Entry::Lzma2, &inp.data, &inp.options, rk, &sink, &obs),
        2 => sut::decode(Entry::Xz, &inp.data, &inp.options, rk, &sink, &obs),
        3 => {
            let (lc, lp, pb, dict, size) = inp.raw.unwrap();
            match sut::raw_lzma_new(lc, lp, pb, dict, size, None) {
                Ok(mut d) => sut::raw_lzma_decompress(&mut d, &inp.data, rk, &sink, &obs),
                Err(v) => sut::Call { verdict: v, consumed: 0, read_calls: 0, read_faults_fired: 0 },
            }
        }
        _ => {
            let mut d = Lzma2Decoder::new();
            sut::raw_lzma2_decompress(&mut d, &inp.data, rk, &sink, &obs)
        }
    };
    Res { verdict: c.verdict, out: sink.bytes(), consumed: c.consumed }
}

fn fam_inputs(ctx: &CaseCtx, cov: &mut Cov) -> CaseOut {
    let mut out = CaseOut::default();
    let mut rng = ctx.rng();
    let mut inp = gen(&mut rng, ctx.tier);
    // a quarter of the .lzma inputs are decoded with incomplete input allowed: whatever that
    // option means for the one-shot decoder, it must mean the same under every reader
    if inp.dec == 0 && rng.chance(1, 4) {
        inp.options.allow_incomplete = true;
        cov.name("lzma_inputs_with_incomplete_input_allowed", 1);
    }
    let base = run(&inp, ReaderKind::Slice);
    out.evals += 1;
    cov.inc("decoder", inp.dec as u32);
    cov.inc("source", inp.src as u32);
    cov.inc("baseline_verdict", base.verdict.is_ok() as u32);
    if base.verdict.is_abnormal() {
        // C07's business; nothing to compare against
        return out;
    }
    let mut kinds: Vec<ReaderKind> = vec![ReaderKind::Cursor];
    let maxcap = if inp.data.len() > 4000 { 16 } else { 64 };
    for cap in 1..=maxcap {
        kinds.push(ReaderKind::Buf(cap));
    }
    kinds.push(ReaderKind::Buf(rng.range(65, 9000) as usize));
    // capacities equal to structural offsets (+-1): a refill then falls exactly on a
    // field boundary, and requests of at least the capacity bypass the buffer
    let mut caps: Vec<usize> = inp.offsets.iter().flat_map(|&o| [o.saturating_sub(1), o, o + 1]).filter(|&c| c > 64 && c <= inp.data.len() + 1).collect();
    caps.sort();
    caps.dedup();
    for c in caps.into_iter().take(60) {
        kinds.push(ReaderKind::Buf(c));
        cov.name("reader.capacity_at_structural_offset", 1);
    }
    // ... and capacities that leave exactly 256 or 512 buffered bytes behind a structural offset
    // (a refill whose length is a multiple of 256), plus the plain powers of two
    let mut caps2: Vec<usize> = inp.offsets.iter().flat_map(|&o| [o + 256, o + 512]).chain([128usize, 256, 512, 1024]).filter(|&c| c <= inp.data.len() + 1).collect();
    caps2.sort();
    caps2.dedup();
    for c in caps2.into_iter().take(48) {
        kinds.push(ReaderKind::Buf(c));
        cov.name("reader.capacity_leaving_a_multiple_of_256", 1);
    }
    for k in [1usize, 2, 3, 7, 64] {
        kinds.push(ReaderKind::Chaos { seed: rng.next(), k });
    }
    if inp.data.len() > 600 {
        kinds.push(ReaderKind::Chaos { seed: rng.next(), k: 600 });
    }
    for rk in kinds {
        let r = run(&inp, rk);
        out.evals += 1;
        cov.name(&format!("reader.{}", rk.class()), 1);
        let data = || {
            J::obj()
                .set("input_hex", J::s(crate::util::hex_trunc(&inp.data, 4096)))
                .set("decoder", J::s(DEC[inp.dec]))
                .set("options", J::s(format!("{:?}", inp.options)))
                .set("input", J::s(inp.desc.as_str()))
                .set("reader", J::s(rk.name()))
        };
        if r.verdict.is_abnormal() {
            out.violate(
                format!("C13/{}/{}", DEC[inp.dec], verdict_sig(&r.verdict)),
                format!("{} with reader {}: {} (slice reader: {}) [{}]", DEC[inp.dec], rk.name(), r.verdict.short(), base.verdict.short(), inp.desc),
                data(),
            );
            break;
        }
        if r.verdict.is_ok() != base.verdict.is_ok() {
            out.violate(
                format!("C13/{}/verdict-depends-on-reader/{}", DEC[inp.dec], if base.verdict.is_ok() { "slice-ok" } else { "slice-err" }),
                format!("{}: slice reader {} but reader {} {} [{}]", DEC[inp.dec], base.verdict.short(), rk.name(), r.verdict.short(), inp.desc),
                data(),
            );
            break;
        }
        if r.verdict.is_ok() {
            if r.out != base.out {
                out.violate(
                    format!("C13/{}/output-depends-on-reader", DEC[inp.dec]),
                    format!("{}: reader {}: {} [{}]", DEC[inp.dec], rk.name(), describe_mismatch(&base.out, &r.out), inp.desc),
                    data(),
                );
                break;
            }
            if r.consumed != base.consumed {
                out.violate(
                    format!("C13/{}/consumed-depends-on-reader", DEC[inp.dec]),
                    format!("{}: slice reader consumed {} bytes, reader {} consumed {} [{}]", DEC[inp.dec], base.consumed, rk.name(), r.consumed, inp.desc),
                    data(),
                );
                break;
            }
        } else if r.verdict.class() != base.verdict.class() {
            // allowed: std's read_exact consumes differently per reader type
            out.warnings.push(format!("error text differs between readers for {}", DEC[inp.dec]));
        }
    }
    out.nontrivial.push(case_hash(&[&inp.data, &[inp.dec as u8], format!("{:?}", inp.options).as_bytes()]));
    out.sample = Some(J::obj().set("decoder", J::s(DEC[inp.dec])).set("input", J::s(inp.desc.as_str())).set("len", J::i(inp.data.len())).set("slice_reader_verdict", J::s(base.verdict.short())));
    out
}

fn label(group: &str, i: u32) -> String {
    match group {
        "decoder" => DEC[i as usize].to_string(),
        "source" => SRC[i as usize].to_string(),
        "baseline_verdict" => ["Err", "Ok"][i as usize].to_string(),
        _ => std_label(group, i),
    }
}

fn floors(_: Tier, cov: &Cov) -> Vec<String> {
    let mut m = Vec::new();
    if cov.group_nonzero("decoder") < 5 || cov.group_nonzero("source") < SRC.len() || cov.group_nonzero("baseline_verdict") < 2 {
        m.push("decoders / input sources / verdict classes incomplete".into());
    }
    m
}

pub fn monitor(tier: Tier) -> Monitor {
    Monitor {
        id: "C13",
        level: "exploration",
        rule: "per input (valid and invalid; 8 sources: C08 table cells, C05 inputs, valid / mutated LZMA2 chunk sequences, valid .xz files incl. enlarged header padding, bit-flipped / truncated / extended .xz, random bytes, a complete input followed by (a prefix of) another one) and decoder (5), the slice-reader run is compared with Cursor, BufReader of EVERY capacity 1..64 (1..16 for inputs > 4000 bytes), one random large capacity, capacities equal to every field boundary of generated .xz files (+-1), and five randomised short-read/short-fill readers: same verdict; on success same bytes and same consumed count; evaluations = decoder runs; distinct by hash of (input, decoder, options)",
        assumptions: vec![
            "differential oracle: the slice-reader run of lzma-rs itself".into(),
            "on Err, consumed counts / partial output / error text may differ for reasons internal to std's read_exact; error-text differences are recorded as warnings only".into(),
            "readers never return an empty buffer before EOF (that would break the BufRead contract)".into(),
        ],
        families: vec![Family { name: "inputs", count: tier.pick(15_000, 400_000), priority: false, enumerated: false, run: fam_inputs }],
        label,
        floors,
        summarize: no_summary,
    }
}

//! C12 - I/O failures propagate as errors and never corrupt what was already written.

use super::common::*;
use crate::gen::io::{Probe, ReadStats, SharedSink};
use crate::gen::l2gen::{gen_chunks, L2Params};
use crate::gen::prog::{structured_data, ProgGen, ProgParams};
use crate::gen::xzgen::{gen_xz, XzGenParams};
use crate::refmodel::lzma::Props;
use crate::refmodel::lzma2;
use crate::refmodel::program::{Interp, Sym};
use crate::runner::*;
use crate::sut::{self, Verdict};
use crate::util::{Rng, J};
use lzma_rs::decompress::raw::{Lzma2Decoder, LzmaDecoder, LzmaParams, LzmaProperties};
use lzma_rs::decompress::{Options, Stream};
use std::cell::RefCell;
use std::io::{BufRead, BufReader, Write};
use std::rc::Rc;

const OPS: [&str; 14] = [
    "lzma_decompress",
    "lzma2_decompress",
    "xz_decompress",
    "raw LzmaDecoder",
    "raw Lzma2Decoder",
    "Stream (write* + finish)",
    "lzma_compress (marker)",
    "lzma_compress (size in header)",
    "lzma_compress (no size field)",
    "lzma2_compress",
    "xz_compress",
    "Stream (write + flush after every piece, finish)",
    "lzma_decompress_with_options (allow_incomplete set, generous limit)",
    "Stream with allow_incomplete (write* + finish)",
];
const FAULTS: [&str; 12] = [
    "sink write k fails",
    "sink flush fails",
    "source call k fails",
    "source call k returns Interrupted once",
    "sink accepts 1 byte per write",
    "sink accepts random short counts",
    "underlying source read k fails (behind a BufReader)",
    "source call k fails with UnexpectedEof / WouldBlock / InvalidData / WriteZero / TimedOut",
    "sink write k fails with WriteZero / WouldBlock / BrokenPipe / TimedOut",
    "short-writing sink that also fails at write k",
    "sink write k returns Ok(0) once (whole-buffer, 1-byte and short-writing sinks)",
    "sink write k returns Interrupted once",
];

#[derive(Clone)]
struct Job {
    op: usize,
    input: Vec<u8>,
    /// for raw lzma
    props: Props,
    out_len: u64,
    desc: String,
    /// the correct output, when it is known independently of lzma-rs (decoders)
    expect: Option<Vec<u8>>,
}

#[derive(Clone, Copy, Default)]
struct Fault {
    sink_fail_at: Option<u64>,
    sink_fail_flush: bool,
    sink_zero_at: Option<u64>,
    sink_short: usize,
    sink_short_rng: Option<u64>,
    src_fail_at: Option<u64>,
    src_interrupt_at: Option<u64>,
    /// place the probe under a BufReader of this capacity (0 = probe on top)
    src_under_bufreader: usize,
    /// error kind used by the injected source / sink failure
    kind: Option<std::io::ErrorKind>,
}

struct Res {
    verdict: Verdict,
    sink: Vec<u8>,
    writes: u64,
    flushes: u64,
    unflushed: u64,
    src_calls: u64,
    fired: u64,
    calls_after_sink_error: u64,
}

fn exec(job: &Job, f: &Fault) -> Res {
    let sink = SharedSink::new();
    {
        let mut s = sink.0.borrow_mut();
        s.fail_write_at = f.sink_fail_at;
        s.zero_at = f.sink_zero_at;
        s.fail_flush = f.sink_fail_flush;
        s.short = f.sink_short;
        s.short_rng = f.sink_short_rng;
        s.fail_kind = f.kind;
    }
    let rs = Rc::new(RefCell::new(ReadStats { fail_at: f.src_fail_at, interrupt_at: f.src_interrupt_at, fail_kind: f.kind, ..Default::default() }));
    let mut w = sink.clone();
    let rs2 = rs.clone();
    let input = &job.input[..];
    let obs = sut::new_obs(u64::MAX);
    let r = sut::observed(&obs, || -> Result<(), String> {
        let mut reader: Box<dyn BufRead> = if f.src_under_bufreader > 0 {
            Box::new(BufReader::with_capacity(f.src_under_bufreader, Probe::new(input, rs2)))
        } else {
            Box::new(Probe::new(input, rs2))
        };
        match job.op {
            0 => lzma_rs::lzma_decompress(&mut reader, &mut w).map_err(|e| e.to_string()),
            1 => lzma_rs::lzma2_decompress(&mut reader, &mut w).map_err(|e| e.to_string()),
            2 => lzma_rs::xz_decompress(&mut reader, &mut w).map_err(|e| e.to_string()),
            3 => {
                let p = LzmaProperties { lc: job.props.lc, lp: job.props.lp, pb: job.props.pb };
                let mut d = LzmaDecoder::new(LzmaParams::new(p, 4096, Some(job.out_len)), None).map_err(|e| e.to_string())?;
                d.decompress(&mut reader, &mut w).map_err(|e| e.to_string())
            }
            4 => Lzma2Decoder::new().decompress(&mut reader, &mut w).map_err(|e| e.to_string()),
            5 => {
                // pump the source into the stream decoder in 1000-byte pieces
                let mut s = Stream::new_with_options(&Options::default(), w.clone());
                let mut buf = [0u8; 1000];
                loop {
                    let n = match reader.read(&mut buf) {
                        Ok(n) => n,
                        Err(e) => return Err(format!("source: {}", e)),
                    };
                    if n == 0 {
                        break;
                    }
                    s.write_all(&buf[..n]).map_err(|e| format!("write: {}", e))?;
                }
                s.finish().map(|_| ()).map_err(|e| format!("finish: {}", e))
            }
            12 => lzma_rs::lzma_decompress_with_options(
                &mut reader,
                &mut w,
                &Options { unpacked_size: lzma_rs::decompress::UnpackedSize::ReadFromHeader, memlimit: Some(usize::MAX), allow_incomplete: true },
            )
            .map_err(|e| e.to_string()),
            13 => {
                // "incomplete input allowed" is about input that ENDS early, not about failures
                let o = Options { unpacked_size: lzma_rs::decompress::UnpackedSize::ReadFromHeader, memlimit: None, allow_incomplete: true };
                let mut s = Stream::new_with_options(&o, w.clone());
                let mut buf = [0u8; 700];
                loop {
                    let n = match reader.read(&mut buf) {
                        Ok(n) => n,
                        Err(e) => return Err(format!("source: {}", e)),
                    };
                    if n == 0 {
                        break;
                    }
                    s.write_all(&buf[..n]).map_err(|e| format!("write: {}", e))?;
                }
                s.finish().map(|_| ()).map_err(|e| format!("finish: {}", e))
            }
            11 => {
                // small pieces, flush() after every one: whatever flush hands over early must not
                // be handed over again later
                let mut s = Stream::new_with_options(&Options::default(), w.clone());
                let mut buf = [0u8; 300];
                loop {
                    let n = match reader.read(&mut buf) {
                        Ok(n) => n,
                        Err(e) => return Err(format!("source: {}", e)),
                    };
                    if n == 0 {
                        break;
                    }
                    s.write_all(&buf[..n]).map_err(|e| format!("write: {}", e))?;
                    s.flush().map_err(|e| format!("flush: {}", e))?;
                }
                s.finish().map(|_| ()).map_err(|e| format!("finish: {}", e))
            }
            6 | 7 | 8 => {
                let us = match job.op {
                    6 => lzma_rs::compress::UnpackedSize::WriteToHeader(None),
                    7 => lzma_rs::compress::UnpackedSize::WriteToHeader(Some(job.input.len() as u64)),
                    _ => lzma_rs::compress::UnpackedSize::SkipWritingToHeader,
                };
                lzma_rs::lzma_compress_with_options(&mut reader, &mut w, &lzma_rs::compress::Options { unpacked_size: us }).map_err(|e| e.to_string())
            }
            9 => lzma_rs::lzma2_compress(&mut reader, &mut w).map_err(|e| e.to_string()),
            _ => lzma_rs::xz_compress(&mut reader, &mut w).map_err(|e| e.to_string()),
        }
    });
    let st = sink.0.borrow();
    let rsb = rs.borrow();
    Res {
        verdict: match r {
            Ok(Ok(())) => Verdict::Ok,
            Ok(Err(e)) => Verdict::Err(e),
            Err(v) => v,
        },
        sink: st.data.clone(),
        writes: st.write_calls,
        flushes: st.flush_calls,
        unflushed: st.unflushed,
        src_calls: rsb.calls,
        fired: st.faults_fired + rsb.faults_fired,
        calls_after_sink_error: st.calls_after_error,
    }
}

fn make_job(rng: &mut Rng, op: usize) -> Option<Job> {
    match op {
        0 | 3 | 5 | 11 | 12 | 13 => {
            let props = if op == 3 || rng.chance(1, 2) { Props::new(rng.below(4) as u32, rng.below(3) as u32, rng.below(4) as u32) } else { Props::new(3, 0, 2) };
            let mut it = Interp::new();
            let mut pg = ProgGen::new();
            // several laps of a 4096-byte window so that the sink sees several writes
            let mut pp = ProgParams::standard(usize::MAX / 2, 4096);
            pp.max_out = rng.range(1, 40_000) as usize;
            pp.long_bias = true;
            pp.w = [6, 30, 2, 6, 2, 2, 2];
            // one job in twelve decodes to nothing at all: no sink write, and still a flush (and a
            // failing flush still an error)
            let mut prog = if rng.chance(1, 12) { Vec::new() } else { pg.generate(rng, &pp, &mut it) };
            // one job in six ends exactly on a window boundary (output a non-zero multiple of the
            // 4096-byte dictionary): the last window is full when the decoder finishes
            if !prog.is_empty() && rng.chance(1, 6) {
                let l = it.hist.len();
                for k in 0..(4096 - l % 4096) % 4096 {
                    prog.push(Sym::Lit((k as u8).wrapping_mul(29) ^ 0x41));
                }
            }
            let marker = op != 3 && rng.chance(1, 2);
            if marker {
                prog.push(Sym::Eos);
            }
            let (payload, _t, hist) = crate::refmodel::lzma::encode_program(&prog, props).ok()?;
            let mut input = if op == 3 { vec![] } else { sut::lzma_header(props.byte(), 4096, Some(if marker { None } else { Some(hist.len() as u64) })) };
            input.extend_from_slice(&payload);
            Some(Job { op, input, props, out_len: hist.len() as u64, desc: format!("{} bytes in, {} bytes out, marker {}", payload.len(), hist.len(), marker), expect: Some(hist) })
        }
        1 | 4 => {
            let n = rng.range(1, 6) as usize;
            let mut p = L2Params::standard(n, 200);
            p.w = [2, 2, 6, 2, 2, 3];
            let chunks = if rng.chance(1, 10) { Vec::new() } else { gen_chunks(rng, &p) };
            let w = lzma2::write(&chunks).ok()?;
            Some(Job { op, input: w.bytes, props: Props::new(0, 0, 0), out_len: w.output.len() as u64, desc: chunks.iter().map(|c| c.short()).collect::<Vec<_>>().join(" "), expect: Some(w.output) })
        }
        2 => {
            let (spec, desc) = gen_xz(rng, &XzGenParams::standard(4));
            let f = spec.serialize().0;
            if f.len() > 6000 {
                return None;
            }
            Some(Job { op, input: f, props: Props::new(0, 0, 0), out_len: spec.plain().len() as u64, desc, expect: Some(spec.plain()) })
        }
        _ => {
            // encoders: the input is the plaintext
            let n = match rng.below(6) {
                0 => 0,
                1 => 1,
                _ => {
                    let hi = if op >= 9 && rng.chance(1, 6) { 70_000 } else { 1500 };
                    rng.range(2, hi) as usize
                }
            };
            let data = if rng.chance(1, 2) { rng.bytes(n) } else { structured_data(rng, n) };
            Some(Job { op, input: data, props: Props::new(0, 0, 0), out_len: 0, desc: format!("{} plaintext bytes", n), expect: None })
        }
    }
}

fn fam_jobs(ctx: &CaseCtx, cov: &mut Cov) -> CaseOut {
    let mut out = CaseOut::default();
    let mut rng = ctx.rng();
    let op = (ctx.index % OPS.len() as u64) as usize;
    let job = loop {
        if let Some(j) = make_job(&mut rng, op) {
            break j;
        }
    };
    let base = exec(&job, &Fault::default());
    out.evals += 1;
    if !base.verdict.is_ok() {
        out.harness_error(format!("fault-free run of {} failed: {} [{}]", OPS[op], base.verdict.short(), job.desc));
        return out;
    }
    if let Some(e) = &job.expect {
        if base.sink != *e {
            out.violate(
                format!("C12/{}/ok-but-output-wrong-without-any-fault", OPS[op]),
                format!("{} succeeded on a well-behaved sink, but the sink holds {}: {} [{}]", OPS[op], base.sink.len(), describe_mismatch(e, &base.sink), job.desc),
                J::obj().set("input_hex", J::s(crate::util::hex_trunc(&job.input, 4096))).set("op", J::s(OPS[op])),
            );
            return out;
        }
        cov.name("fault_free_output_checked_against_reference", 1);
    }
    let good = base.sink.clone();
    if !good.is_empty() && good.len() % 4096 == 0 && matches!(op, 0 | 3 | 5 | 11 | 12 | 13) {
        cov.name("decoder_jobs_ending_exactly_on_a_window_boundary", 1);
    }
    if good.is_empty() && op <= 5 || good.is_empty() && op >= 11 {
        cov.name("decoder_jobs_with_empty_output", 1);
    }
    cov.inc("op", op as u32);
    cov.max("sink_write_calls", base.writes);
    cov.max("source_calls", base.src_calls);
    let is_decoder_with_flush = matches!(op, 0 | 1 | 3 | 4 | 5 | 11 | 12 | 13);
    let data = |what: &str| {
        J::obj()
            .set("input_hex", J::s(crate::util::hex_trunc(&job.input, 4096)))
            .set("op", J::s(OPS[op]))
            .set("job", J::s(job.desc.as_str()))
            .set("fault", J::s(what))
    };
    // success path obligations
    if is_decoder_with_flush && (base.unflushed != 0 || base.flushes == 0) {
        out.violate(
            format!("C12/{}/sink-not-flushed", OPS[op]),
            format!("{} succeeded but {} bytes were written after the last flush ({} flush calls) [{}]", OPS[op], base.unflushed, base.flushes, job.desc),
            data("none"),
        );
    }
    let judge = |out: &mut CaseOut, cov: &mut Cov, fi: usize, what: String, r: &Res, must_fail_if_fired: bool| {
        out.evals += 1;
        cov.inc("fault", fi as u32);
        cov.add("op_x_fault", (op * 16 + fi) as u32, 1);
        out.nontrivial.push(case_hash(&[&job.input, &[op as u8, fi as u8], what.as_bytes()]));
        let prefix_ok = r.sink.len() <= good.len() && r.sink[..] == good[..r.sink.len()];
        match &r.verdict {
            v if v.is_abnormal() => out.violate(
                format!("C12/{}/{}/{}", OPS[op], FAULTS[fi], verdict_sig(v)),
                format!("{} with {}: {} [{}]", OPS[op], what, v.short(), job.desc),
                data(&what),
            ),
            Verdict::Ok => {
                if r.fired > 0 && must_fail_if_fired {
                    out.violate(
                        format!("C12/{}/{}/fault-swallowed", OPS[op], FAULTS[fi]),
                        format!("{} with {}: the fault was injected but the call returned Ok ({} of {} bytes in the sink) [{}]", OPS[op], what, r.sink.len(), good.len(), job.desc),
                        data(&what),
                    );
                } else if r.sink != good {
                    out.violate(
                        format!("C12/{}/{}/ok-but-output-incomplete", OPS[op], FAULTS[fi]),
                        format!("{} with {}: Ok, but the sink holds {} and the fault-free output is {}: {} [{}]", OPS[op], what, r.sink.len(), good.len(), describe_mismatch(&good, &r.sink), job.desc),
                        data(&what),
                    );
                } else if r.fired == 0 {
                    cov.name("faults_not_reached", 1);
                }
            }
            Verdict::Err(_) => {
                if r.fired == 0 {
                    out.violate(
                        format!("C12/{}/{}/failed-without-fault", OPS[op], FAULTS[fi]),
                        format!("{} with {}: {} although no fault fired [{}]", OPS[op], what, r.verdict.short(), job.desc),
                        data(&what),
                    );
                } else if !prefix_ok {
                    out.violate(
                        format!("C12/{}/{}/sink-not-a-prefix", OPS[op], FAULTS[fi]),
                        format!("{} with {}: error reported, but what the sink accepted is not a prefix of the correct output: {} [{}]", OPS[op], what, describe_mismatch(&good, &r.sink), job.desc),
                        data(&what),
                    );
                }
                if r.calls_after_sink_error > 0 {
                    cov.name("sink_called_again_after_it_failed", 1);
                }
            }
            _ => {}
        }
    };
    // sink write k fails, every k
    let wmax = base.writes.min(ctx.tier.pick(400, 5000));
    for k in 1..=wmax {
        let r = exec(&job, &Fault { sink_fail_at: Some(k), ..Default::default() });
        judge(&mut out, cov, 0, format!("sink write #{} of {} failing", k, base.writes), &r, true);
    }
    if base.writes > wmax {
        for _ in 0..50 {
            let k = rng.range(1, base.writes);
            let r = exec(&job, &Fault { sink_fail_at: Some(k), ..Default::default() });
            judge(&mut out, cov, 0, format!("sink write #{} of {} failing", k, base.writes), &r, true);
        }
    } else {
        cov.name("jobs_with_every_sink_write_failed", 1);
    }
    // flush fails
    {
        let r = exec(&job, &Fault { sink_fail_flush: true, ..Default::default() });
        judge(&mut out, cov, 1, "sink flush failing".into(), &r, true);
    }
    // source call k fails, every k (sampled when long)
    let rmax = base.src_calls.min(ctx.tier.pick(300, 3000));
    let ks: Vec<u64> = if base.src_calls <= rmax { (1..=base.src_calls).collect() } else { (0..rmax).map(|_| rng.range(1, base.src_calls)).collect() };
    if base.src_calls <= rmax {
        cov.name("jobs_with_every_source_call_failed", 1);
    }
    for &k in &ks {
        let r = exec(&job, &Fault { src_fail_at: Some(k), ..Default::default() });
        judge(&mut out, cov, 2, format!("source call #{} of {} failing", k, base.src_calls), &r, true);
    }
    for &k in ks.iter().step_by(7) {
        let r = exec(&job, &Fault { src_interrupt_at: Some(k), ..Default::default() });
        // Interrupted may be retried (then Ok with the right output) or reported
        judge(&mut out, cov, 3, format!("source call #{} of {} interrupted once", k, base.src_calls), &r, false);
    }
    // underlying reads failing behind a BufReader
    for cap in [1usize, 7, 64] {
        let b = exec(&job, &Fault { src_under_bufreader: cap, ..Default::default() });
        if !b.verdict.is_ok() || b.sink != good {
            out.violate(format!("C12/{}/bufreader-changes-result", OPS[op]), format!("{} behind BufReader({}): {}", OPS[op], cap, b.verdict.short()), data("none"));
            continue;
        }
        let n = b.src_calls.min(ctx.tier.pick(60, 600));
        for i in 0..n {
            let k = if b.src_calls <= n { i + 1 } else { rng.range(1, b.src_calls) };
            let r = exec(&job, &Fault { src_fail_at: Some(k), src_under_bufreader: cap, ..Default::default() });
            judge(&mut out, cov, 6, format!("underlying read #{} of {} failing behind BufReader({})", k, b.src_calls, cap), &r, true);
        }
    }
    // other error kinds: none of them may be mistaken for end of input / success
    {
        use std::io::ErrorKind as K;
        let kinds_src = [K::UnexpectedEof, K::WouldBlock, K::InvalidData, K::WriteZero, K::TimedOut];
        for &k in ks.iter().step_by(5) {
            let kind = *rng.pick(&kinds_src);
            let r = exec(&job, &Fault { src_fail_at: Some(k), kind: Some(kind), ..Default::default() });
            judge(&mut out, cov, 7, format!("source call #{} of {} failing with {:?}", k, base.src_calls, kind), &r, true);
        }
        let kinds_sink = [K::WriteZero, K::WouldBlock, K::BrokenPipe, K::TimedOut];
        for k in 1..=base.writes.min(40) {
            let kind = *rng.pick(&kinds_sink);
            let r = exec(&job, &Fault { sink_fail_at: Some(k), kind: Some(kind), ..Default::default() });
            judge(&mut out, cov, 8, format!("sink write #{} of {} failing with {:?}", k, base.writes, kind), &r, true);
        }
    }
    // two events: a short-writing sink whose k-th write then fails
    {
        let probe = exec(&job, &Fault { sink_short: 1, ..Default::default() });
        let n = probe.writes.min(ctx.tier.pick(120, 1500));
        for i in 0..n {
            let k = if probe.writes <= n { i + 1 } else { rng.range(1, probe.writes) };
            let r = exec(&job, &Fault { sink_short: 1, sink_fail_at: Some(k), ..Default::default() });
            judge(&mut out, cov, 9, format!("sink accepting 1 byte per write and failing at write #{} of {}", k, probe.writes), &r, true);
        }
        for _ in 0..20 {
            let seed = rng.next();
            let p2 = exec(&job, &Fault { sink_short_rng: Some(seed), ..Default::default() });
            if p2.writes == 0 {
                break;
            }
            let k = rng.range(1, p2.writes);
            let r = exec(&job, &Fault { sink_short_rng: Some(seed), sink_fail_at: Some(k), ..Default::default() });
            judge(&mut out, cov, 9, format!("sink accepting random short counts and failing at write #{} of {}", k, p2.writes), &r, true);
        }
    }
    // a sink that accepts nothing once (Ok(0), not an error), or is interrupted once: the call may
    // report it (WriteZero) or carry on, but Ok still means the complete output arrived
    {
        for k in 1..=base.writes.min(ctx.tier.pick(150, 2000)) {
            let r = exec(&job, &Fault { sink_zero_at: Some(k), ..Default::default() });
            judge(&mut out, cov, 10, format!("sink write #{} of {} returning Ok(0)", k, base.writes), &r, false);
        }
        for k in (1..=base.writes.min(ctx.tier.pick(150, 2000))).step_by(3) {
            let r = exec(&job, &Fault { sink_fail_at: Some(k), kind: Some(std::io::ErrorKind::Interrupted), ..Default::default() });
            judge(&mut out, cov, 11, format!("sink write #{} of {} interrupted once", k, base.writes), &r, false);
        }
        for short in [1usize, 2, 3] {
            let probe = exec(&job, &Fault { sink_short: short, ..Default::default() });
            let n = probe.writes.min(ctx.tier.pick(150, 2000));
            for i in 0..n {
                let k = if probe.writes <= n { i + 1 } else { rng.range(1, probe.writes) };
                let r = exec(&job, &Fault { sink_short: short, sink_zero_at: Some(k), ..Default::default() });
                judge(&mut out, cov, 10, format!("sink accepting {} byte(s) per write and returning Ok(0) at write #{} of {}", short, k, probe.writes), &r, false);
            }
        }
    }
    // short writes
    {
        let r = exec(&job, &Fault { sink_short: 1, ..Default::default() });
        judge(&mut out, cov, 4, "sink accepting 1 byte per write".into(), &r, false);
        for _ in 0..3 {
            let r = exec(&job, &Fault { sink_short_rng: Some(rng.next()), ..Default::default() });
            judge(&mut out, cov, 5, "sink accepting random short counts".into(), &r, false);
        }
        let r = exec(&job, &Fault { sink_short: *rng.pick(&[2usize, 3, 5, 100]), ..Default::default() });
        judge(&mut out, cov, 5, "sink accepting a few bytes per write".into(), &r, false);
    }
    out.sample = Some(J::obj().set("op", J::s(OPS[op])).set("job", J::s(job.desc.as_str())).set("sink_write_calls", J::i(base.writes)).set("source_calls", J::i(base.src_calls)));
    out
}

fn label(group: &str, i: u32) -> String {
    match group {
        "op" => OPS[i as usize].to_string(),
        "fault" => FAULTS[i as usize].to_string(),
        "op_x_fault" => format!("{} | {}", OPS[(i / 16) as usize], FAULTS[(i % 16) as usize]),
        _ => std_label(group, i),
    }
}

fn floors(_: Tier, cov: &Cov) -> Vec<String> {
    let mut m = Vec::new();
    if cov.group_nonzero("op") < OPS.len() || cov.group_nonzero("fault") < FAULTS.len() {
        m.push("operations / fault kinds incomplete".into());
    }
    if cov.maxes.get("sink_write_calls").copied().unwrap_or(0) < 5 {
        m.push("no job with several sink writes".into());
    }
    m
}

pub fn monitor(tier: Tier) -> Monitor {
    Monitor {
        id: "C12",
        level: "fault_enumeration",
        rule: "per job (one of 14 operations: 3 one-shot decoders, the one-shot LZMA decoder and Stream once more with allow_incomplete set, 2 raw decoders, Stream fed from the source without and with flush() after every piece, 5 encoder configurations; the fault-free output of every decoder is first compared with the reference; inputs sized so that the window is flushed several times) a fault-free run counts the sink and source calls, then: every sink write k fails (all k up to 400, thorough 5000), flush fails, every source call k fails (all k up to 300, thorough 3000; sampled beyond), Interrupted once at every 7th call, underlying reads failing behind BufReader(1/7/64), sinks accepting 1 byte / random short counts per write, source and sink failures with other error kinds (UnexpectedEof, WouldBlock, InvalidData, WriteZero, TimedOut, BrokenPipe), and two-event faults (a short-writing sink whose k-th write then fails); verdict rules: injected fault => Err (not Ok, not panic) and the sink is a prefix of the fault-free output; Ok => sink equals the fault-free output; LZMA/LZMA2 decoders leave nothing unflushed; evaluations = faulted executions; distinct by hash of (input, operation, fault)",
        assumptions: vec![
            "oracle = the fault-free run of the same call".into(),
            "ErrorKind::Interrupted may be retried (Ok with the right output) or reported (Err); only ErrorKind::Other must surface".into(),
            "a fault at a call the run never makes is not a fault (counted as faults_not_reached)".into(),
        ],
        families: vec![Family { name: "jobs", count: tier.pick(2200, 66_000), priority: false, enumerated: false, run: fam_jobs }],
        label,
        floors,
        summarize: no_summary,
    }
}

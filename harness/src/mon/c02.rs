//! C02 - LZMA2 decoding is exact for every well-formed chunk sequence.

use super::common::*;
use crate::gen::io::{ReaderKind, SharedSink};
use crate::gen::l2gen::{gen_chunks, random_props_l2, L2Params};
use crate::gen::prog::{structured_data, ProgGen, ProgParams};
use crate::liblzma as ll;
use crate::refmodel::lzma::Props;
use crate::refmodel::lzma2::{self, Chunk, Written};
use crate::refmodel::program::{Interp, Sym};
use crate::refmodel::xz::{self, BlockOpts, BlockSpec, XzSpec};
use crate::runner::*;
use crate::sut::{self, Entry};
use crate::util::{Rng, J};
use lzma_rs::decompress::raw::Lzma2Decoder;

const API: [&str; 3] = ["lzma2_decompress", "raw Lzma2Decoder", "xz_decompress"];

/// count copies that reach into an earlier chunk (by kind of that chunk)
fn cross_chunk_refs(chunks: &[Chunk]) -> (u64, u64) {
    let mut into_lzma = 0;
    let mut into_raw = 0;
    // history since last dict reset, tagged by origin: 0 raw, 1 lzma
    let mut origin: Vec<u8> = Vec::new();
    let mut it = Interp::new();
    for c in chunks {
        match c {
            Chunk::Raw { reset_dict, data } => {
                if *reset_dict {
                    origin.clear();
                    it.hist.clear();
                }
                it.hist.extend_from_slice(data);
                origin.extend(std::iter::repeat(0u8).take(data.len()));
            }
            Chunk::Lzma { reset, prog, .. } => {
                if *reset == 3 {
                    origin.clear();
                    it.hist.clear();
                }
                if *reset >= 1 {
                    it.reps = [0; 4];
                }
                let start = it.hist.len();
                for s in prog {
                    if let Some(d) = it.distance_of(s) {
                        let pos = it.hist.len();
                        if (d as usize) > pos - start && (d as usize) <= pos {
                            if origin[pos - d as usize] == 0 {
                                into_raw += 1;
                            } else {
                                into_lzma += 1;
                            }
                        }
                    }
                    it.step(s);
                }
                origin.extend(std::iter::repeat(1u8).take(it.hist.len() - start));
            }
        }
    }
    (into_lzma, into_raw)
}

pub fn check_stream(
    tag: &str,
    w: &Written,
    desc: &str,
    out: &mut CaseOut,
    cov: &mut Cov,
    ctx: &CaseCtx,
    rng: &mut Rng,
    cross: bool,
) {
    let api = rng.usize_below(3);
    let rk = if rng.chance(1, 3) { ReaderKind::random(rng) } else { ReaderKind::Slice };
    let sink = SharedSink::varied(ctx.index ^ w.bytes.len() as u64, w.output.len());
    let obs = sut::new_obs(u64::MAX);
    let (c, input) = match api {
        0 => (
            sut::decode(Entry::Lzma2, &w.bytes, &sut::default_options(), rk, &sink, &obs),
            w.bytes.clone(),
        ),
        1 => {
            let mut d = Lzma2Decoder::new();
            // a well-formed stream starts by resetting everything it depends on, so it must also
            // decode on a decoder object that has already been used - for a complete stream, or for
            // one that failed half-way (cut short / corrupted) - whether or not reset() was called
            if rng.chance(1, 3) && w.bytes.len() > 2 {
                let mut junk = w.bytes.clone();
                match rng.below(3) {
                    0 => junk.truncate(rng.range(1, junk.len() as u64 - 1) as usize),
                    1 => {
                        let i = rng.usize_below(junk.len());
                        junk[i] ^= 1 << rng.below(8);
                    }
                    _ => {}
                }
                let pre = sut::raw_lzma2_decompress(&mut d, &junk, ReaderKind::Slice, &SharedSink::counting_only(), &sut::new_obs(u64::MAX));
                if pre.verdict.is_abnormal() {
                    return; // C07's finding
                }
                cov.inc("raw_decoder_used_before", pre.verdict.is_ok() as u32);
                if rng.chance(1, 3) {
                    let _ = sut::guarded(|| d.reset());
                    cov.name("raw_decoder_used_before.then_reset", 1);
                }
            }
            (sut::raw_lzma2_decompress(&mut d, &w.bytes, rk, &sink, &obs), w.bytes.clone())
        }
        _ => {
            let check = *rng.pick(&[0u8, 1, 4]);
            let bo = BlockOpts {
                with_packed: rng.chance(1, 2),
                with_unpacked: rng.chance(1, 2),
                extra_header_words: 0,
                // the announced dictionary only has to cover the largest distance used: half of
                // the time it is the smallest such value (then often far below the output size,
                // with copies at exactly the dictionary size), else anything up to the output size
                dict_prop: {
                    let lo = xz::lzma2_dict_prop_for(w.need_dict.max(1));
                    let hi = xz::lzma2_dict_prop_for(w.output.len() as u64).max(lo);
                    if rng.chance(1, 2) { lo } else { rng.range(lo as u64, hi as u64) as u8 }
                },
            };
            if (w.output.len() as u64) > 3 * xz::lzma2_dict_size(bo.dict_prop) {
                cov.name("xz_blocks_with_output_above_3x_announced_dictionary", 1);
            }
            let f = XzSpec::new(check, vec![BlockSpec::new(w.bytes.clone(), w.output.clone(), check, &bo)])
                .serialize()
                .0;
            (sut::decode(Entry::Xz, &f, &sut::default_options(), rk, &sink, &obs), f)
        }
    };
    out.evals += 1;
    let o = obs.borrow();
    cov_from_obs(cov, &o);
    cov.inc("api", api as u32);
    let got = sink.bytes();
    if o.chunk_class.iter().sum::<u64>() > 0 {
        out.nontrivial.push(case_hash(&[&input, &[api as u8]]));
    }
    ctx.say(format!("{} via {} reader {} -> {} ({} bytes, expected {})", desc, API[api], rk.name(), c.verdict.short(), got.len(), w.output.len()));
    let good = c.verdict.is_ok() && got == w.output;
    let judge = || ll::lzma2_raw_decode(&w.bytes, 1 << 27);
    if !good {
        let d = judge();
        if !(d.ok() && d.out == w.output && d.total_in as usize == w.bytes.len()) {
            out.harness_error(format!(
                "{}: model and liblzma disagree on a generated LZMA2 stream (liblzma ret {}); lzma-rs said {}",
                tag,
                d.ret,
                c.verdict.short()
            ));
            return;
        }
        let (sig, what) = if c.verdict.is_ok() {
            ("C02/wrong-output".to_string(), format!("wrong output: {}", describe_mismatch(&w.output, &got)))
        } else {
            (format!("C02/{}", verdict_sig(&c.verdict)), format!("well-formed stream not decoded: {}", c.verdict.short()))
        };
        out.violate(
            sig,
            format!("{} [{}] via {} reader {}: {}", tag, desc, API[api], rk.name(), what),
            J::obj().set("input_hex", J::s(crate::util::hex_trunc(&input, 4096))).set("chunks", J::s(desc)),
        );
    } else if cross && w.bytes.len() < (1 << 21) {
        let d = judge();
        cov.name("liblzma_cross_checked", 1);
        if !(d.ok() && d.out == w.output && d.total_in as usize == w.bytes.len()) {
            out.harness_error(format!("{}: liblzma does not confirm a generated LZMA2 stream (ret {}) [{}]", tag, d.ret, desc));
        }
    }
}

fn describe(chunks: &[Chunk]) -> String {
    let v: Vec<String> = chunks.iter().take(12).map(|c| c.short()).collect();
    format!("{}{}", v.join(" "), if chunks.len() > 12 { " ..." } else { "" })
}

fn run_chunks(tag: &str, chunks: &[Chunk], out: &mut CaseOut, cov: &mut Cov, ctx: &CaseCtx, rng: &mut Rng) {
    let w = match lzma2::write(chunks) {
        Ok(w) => w,
        Err(lzma2::WriteError::TooBig(_)) => {
            cov.name("generator.chunk_too_big_skipped", 1);
            return;
        }
        Err(e) => {
            out.harness_error(format!("lzma2 writer: {:?}", e));
            return;
        }
    };
    let (a, b) = cross_chunk_refs(chunks);
    cov.name("copies_reaching_into_earlier_lzma_chunk", a);
    cov.name("copies_reaching_into_earlier_raw_chunk", b);
    let desc = describe(chunks);
    check_stream(tag, &w, &desc, out, cov, ctx, rng, true);
    if out.sample.is_none() {
        out.sample = Some(
            J::obj()
                .set("chunks", J::s(desc))
                .set("stream_len", J::i(w.bytes.len()))
                .set("output_len", J::i(w.output.len())),
        );
    }
}

fn fam_random(ctx: &CaseCtx, cov: &mut Cov) -> CaseOut {
    let mut out = CaseOut::default();
    let mut rng = ctx.rng();
    let n = rng.range(1, ctx.tier.pick(10, 24)) as usize;
    let mut p = L2Params::standard(n, *rng.pick(&[30usize, 200, 1000]));
    if rng.chance(1, 3) {
        // emphasise chunks that inherit state
        p.w = [1, 4, 12, 3, 2, 1];
    }
    if rng.chance(1, 5) {
        // distances capped at a dictionary size, long copies, few dictionary resets: the output
        // grows to many times the dictionary a container has to announce
        p.max_dist = *rng.pick(&[4096u64, 6144, 8192, 12288, 65536]);
        p.long_bias = true;
        p.w = [0, 3, 10, 3, 3, 0];
        p.n_chunks = rng.range(4, 16) as usize;
        p.max_syms = 300;
        cov.name("streams_with_capped_distances", 1);
    }
    let chunks = gen_chunks(&mut rng, &p);
    run_chunks("random", &chunks, &mut out, cov, ctx, &mut rng);
    out
}

/// the smallest streams there are: no chunk at all (`00`), one uncompressed chunk of one byte,
/// one LZMA chunk of one or two symbols, and pairs of those
fn fam_tiny(ctx: &CaseCtx, cov: &mut Cov) -> CaseOut {
    let mut out = CaseOut::default();
    let mut rng = ctx.rng();
    let i = ctx.index as usize;
    let b = (i as u8).wrapping_mul(41);
    let props = Props::new((i % 5) as u32, ((i / 5) % 5).min(4 - (i % 5).min(4)) as u32, ((i / 25) % 5) as u32);
    let raw1 = Chunk::Raw { reset_dict: true, data: vec![b] };
    let lz = |prog: Vec<Sym>| Chunk::Lzma { reset: 3, props, prog };
    let chunks: Vec<Chunk> = match i % 7 {
        0 => vec![],
        1 => vec![raw1],
        2 => vec![lz(vec![Sym::Lit(b)])],
        3 => vec![lz(vec![Sym::Lit(b), Sym::ShortRep])],
        4 => vec![raw1, Chunk::Raw { reset_dict: false, data: vec![b ^ 1] }],
        5 => vec![raw1, Chunk::Lzma { reset: 2, props, prog: vec![Sym::ShortRep] }],
        _ => vec![lz(vec![Sym::Lit(b)]), Chunk::Raw { reset_dict: (i / 7) % 2 == 0, data: vec![b ^ 2] }],
    };
    cov.name(&format!("tiny.shape{}", i % 7), 1);
    run_chunks("tiny", &chunks, &mut out, cov, ctx, &mut rng);
    out
}

fn fam_extremes(ctx: &CaseCtx, cov: &mut Cov) -> CaseOut {
    let mut out = CaseOut::default();
    let mut rng = ctx.rng();
    let mut p = L2Params::standard(rng.range(1, 5) as usize, 300);
    p.extremes = true;
    let chunks = gen_chunks(&mut rng, &p);
    run_chunks("extremes", &chunks, &mut out, cov, ctx, &mut rng);
    out
}

/// Very long chunk sequences: chunk counts around the widths a counter could
/// have (2^8, 2^16, 2^17), mostly 1-byte uncompressed chunks, with LZMA chunks
/// of every non-dictionary-reset class sitting exactly on and next to those
/// boundaries and now and then in between (their copies reach far back across
/// thousands of chunks).
fn fam_long(ctx: &CaseCtx, cov: &mut Cov) -> CaseOut {
    let mut out = CaseOut::default();
    let mut rng = ctx.rng();
    const NS: [usize; 8] = [65_537, 257, 131_073, 65_536, 256, 65_535, 255, 70_000];
    let n = NS[(ctx.index % NS.len() as u64) as usize];
    let mut chunks = Vec::with_capacity(n);
    let mut it = Interp::new();
    let mut pg = ProgGen::new();
    let mut props = random_props_l2(&mut rng);
    let mut lzma_at_boundary = 0u64;
    for i in 0..n {
        let boundary = i % 256 == 0 || matches!(i % 65_536, 1 | 65_535);
        let lz = i == 0 || (boundary && rng.chance(2, 3)) || rng.chance(1, 3000);
        if lz {
            let reset: u8 = if i == 0 { 3 } else { *rng.pick(&[0u8, 0, 1, 2]) };
            if reset >= 2 {
                props = random_props_l2(&mut rng);
            }
            if reset == 3 {
                it.hist.clear();
            }
            if reset >= 1 {
                it.reps = [0; 4];
                pg.state = 0;
            }
            let pp = ProgParams::standard(rng.range(1, 6) as usize, u64::MAX);
            let prog = pg.generate(&mut rng, &pp, &mut it);
            chunks.push(Chunk::Lzma { reset, props, prog });
            if boundary && i > 0 {
                lzma_at_boundary += 1;
            }
        } else {
            let data = vec![rng.byte()];
            it.hist.extend_from_slice(&data);
            chunks.push(Chunk::Raw { reset_dict: false, data });
        }
    }
    cov.max("long.chunks_in_one_stream", n as u64);
    cov.name("long.lzma_chunks_on_counter_boundaries", lzma_at_boundary);
    run_chunks("long", &chunks, &mut out, cov, ctx, &mut rng);
    out
}

/// property changes that keep lc+lp (table refilled) and that change it
/// (table reallocated), state carried by no-reset chunks in between
fn fam_props(ctx: &CaseCtx, cov: &mut Cov) -> CaseOut {
    let mut out = CaseOut::default();
    let mut rng = ctx.rng();
    let mut chunks = Vec::new();
    let mut it = Interp::new();
    let mut pg = ProgGen::new();
    let mut props = random_props_l2(&mut rng);
    let n = rng.range(2, 8);
    for i in 0..n {
        let reset: u8 = if i == 0 { 3 } else { *rng.pick(&[0u8, 0, 1, 2, 2, 2, 3]) };
        if reset >= 2 {
            let old = props;
            props = if rng.chance(1, 2) {
                // same lc+lp, different split
                loop {
                    let p = random_props_l2(&mut rng);
                    if p.lc + p.lp == old.lc + old.lp {
                        break p;
                    }
                }
            } else {
                random_props_l2(&mut rng)
            };
            cov.name(if props.lc + props.lp == old.lc + old.lp { "props_change.same_lc+lp" } else { "props_change.other_lc+lp" }, 1);
        }
        if reset == 3 {
            it.hist.clear();
        }
        if reset >= 1 {
            it.reps = [0; 4];
            pg.state = 0;
        }
        let pp = ProgParams::standard(rng.range(1, 150) as usize, u64::MAX);
        let prog = pg.generate(&mut rng, &pp, &mut it);
        chunks.push(Chunk::Lzma { reset, props, prog });
        if rng.chance(1, 4) {
            let dn = rng.range(1, 40) as usize;
            let data = rng.bytes(dn);
            it.hist.extend_from_slice(&data);
            chunks.push(Chunk::Raw { reset_dict: false, data });
        }
    }
    run_chunks("props", &chunks, &mut out, cov, ctx, &mut rng);
    out
}

/// A literal program whose range-coded payload is EXACTLY `target` bytes long
/// (65536 = the largest compressed size the 16-bit field can express).
fn program_with_packed_len(rng: &mut Rng, props: crate::refmodel::lzma::Props, target: u64) -> Option<Vec<Sym>> {
    use crate::refmodel::lzma::{Encoder, Model};
    for _ in 0..40 {
        let mut model = Model::new(props);
        let mut hist = Vec::new();
        let mut enc = Encoder::new(&mut model, &mut hist);
        let mut prog = Vec::new();
        loop {
            let c = enc.rc.decoder_consumed();
            if c == target {
                return Some(prog);
            }
            if c > target {
                break;
            }
            let s = Sym::Lit(rng.byte());
            let _ = enc.push(&s);
            prog.push(s);
        }
    }
    None
}

/// chunk-size extremes: 1-byte chunks, 64 KiB raw, 2 MiB unpacked from <= 64 KiB packed,
/// compressed payloads of exactly 65535 / 65536 bytes
fn fam_sizes(ctx: &CaseCtx, cov: &mut Cov) -> CaseOut {
    let mut out = CaseOut::default();
    let mut rng = ctx.rng();
    let props = random_props_l2(&mut rng);
    let mut chunks = Vec::new();
    match ctx.index % 6 {
        5 => {
            // compressed chunks whose unpacked size sits on the 16-bit boundary of the size
            // field (the high bits live in the control byte), after another chunk
            let target = *rng.pick(&SIZE_FIELD_BOUNDARIES);
            chunks = sized_chunk_stream(&mut rng, props, target);
            cov.name(&format!("chunk_with_unpacked_size_{:#x}", target), 1);
        }
        4 => {
            // the compressed-size field at its maximum (0xFFFF = 65536 bytes) and one below
            let target = if (ctx.index / 6) % 2 == 0 { 65536 } else { 65535 };
            match program_with_packed_len(&mut rng, props, target) {
                Some(prog) => {
                    chunks.push(Chunk::Lzma { reset: 3, props, prog });
                    chunks.push(Chunk::Lzma { reset: 0, props, prog: vec![Sym::Rep { idx: 0, len: 4 }, Sym::Lit(rng.byte())] });
                    cov.name(if target == 65536 { "chunk_with_packed_size_65536" } else { "chunk_with_packed_size_65535" }, 1);
                }
                None => return out,
            }
        }
        0 => {
            // many one-byte chunks of every class
            chunks.push(Chunk::Lzma { reset: 3, props, prog: vec![Sym::Lit(rng.byte())] });
            for _ in 0..rng.range(1, 40) {
                match rng.below(4) {
                    0 => chunks.push(Chunk::Raw { reset_dict: false, data: vec![rng.byte()] }),
                    1 => chunks.push(Chunk::Lzma { reset: 0, props, prog: vec![Sym::ShortRep] }),
                    2 => chunks.push(Chunk::Lzma { reset: 1, props, prog: vec![Sym::Lit(rng.byte())] }),
                    _ => chunks.push(Chunk::Lzma { reset: 0, props, prog: vec![Sym::Lit(rng.byte())] }),
                }
            }
        }
        1 => {
            chunks.push(Chunk::Raw { reset_dict: true, data: rng.bytes(65536) });
            chunks.push(Chunk::Lzma {
                reset: 2,
                props,
                prog: vec![Sym::Match { dist: 65536, len: 273 }, Sym::Match { dist: 1, len: 2 }, Sym::Rep { idx: 1, len: 18 }],
            });
            chunks.push(Chunk::Raw { reset_dict: false, data: rng.bytes(65535) });
        }
        _ => {
            // exactly 2 MiB unpacked: 64 literals then long matches
            let mut prog: Vec<Sym> = (0..64).map(|_| Sym::Lit(rng.byte())).collect();
            let mut produced = 64usize;
            let target = if ctx.index % 6 == 2 { 1usize << 21 } else { (1usize << 21) - rng.range(0, 300) as usize };
            while produced < target {
                let len = (target - produced).min(273);
                if len < 2 {
                    prog.push(Sym::Lit(rng.byte()));
                    produced += 1;
                } else {
                    let dist = crate::gen::prog::pick_dist(&mut rng, produced as u64, u64::MAX) as u32;
                    prog.push(Sym::Match { dist, len: len as u32 });
                    produced += len;
                }
            }
            chunks.push(Chunk::Lzma { reset: 3, props, prog });
            chunks.push(Chunk::Lzma { reset: 0, props, prog: vec![Sym::Rep { idx: 0, len: 5 }, Sym::Match { dist: target as u32, len: 9 }] });
        }
    }
    run_chunks("sizes", &chunks, &mut out, cov, ctx, &mut rng);
    out
}

/// unpacked sizes of a compressed chunk on and next to the boundaries of its size field: the low
/// 16 bits live in two bytes, the high 5 bits in the control byte, and the field stores size - 1
pub const SIZE_FIELD_BOUNDARIES: [usize; 14] =
    [65535, 65536, 65537, 0x1FFFF, 0x20000, 0x20001, 0x2FFFF, 0x30000, 0x40000, 0x80000, 0x100000, 0x1F0000, 0x1FFFFF, 0x200000];

/// a short LZMA chunk, then an LZMA chunk that unpacks to exactly `target` bytes (any reset
/// class), then a two-symbol chunk that continues from it
pub fn sized_chunk_stream(rng: &mut Rng, props: Props, target: usize) -> Vec<Chunk> {
    let mut chunks = Vec::new();
    let first: Vec<Sym> = (0..rng.range(1, 40)).map(|_| Sym::Lit(rng.byte())).collect();
    let base = first.len();
    chunks.push(Chunk::Lzma { reset: 3, props, prog: first });
    let reset = *rng.pick(&[0u8, 0, 1, 2, 3]);
    // a dictionary reset forgets the first chunk: copies may only reach into this one
    let base = if reset == 3 { 0 } else { base };
    let mut prog: Vec<Sym> = Vec::new();
    let mut produced = 0usize;
    while produced < target {
        let len = (target - produced).min(273);
        if len < 2 || base + produced == 0 {
            prog.push(Sym::Lit(rng.byte()));
            produced += 1;
        } else {
            let dist = crate::gen::prog::pick_dist(rng, (base + produced) as u64, u64::MAX) as u32;
            prog.push(Sym::Match { dist, len: len as u32 });
            produced += len;
        }
    }
    chunks.push(Chunk::Lzma { reset, props, prog });
    chunks.push(Chunk::Lzma { reset: 0, props, prog: vec![Sym::Rep { idx: 0, len: 3 }, Sym::Lit(rng.byte())] });
    chunks
}

/// multi-chunk streams written by liblzma (LZMA_SYNC_FLUSH starts a new chunk)
fn fam_liblzma(ctx: &CaseCtx, cov: &mut Cov) -> CaseOut {
    let mut out = CaseOut::default();
    let mut rng = ctx.rng();
    let props = random_props_l2(&mut rng);
    let n = rng.range(1, ctx.tier.pick(200_000, 3_000_000)) as usize;
    let plain = if rng.chance(1, 5) { rng.bytes(n.min(100_000)) } else { structured_data(&mut rng, n) };
    let flushes: Vec<usize> = (0..rng.below(5)).map(|_| rng.usize_below(plain.len())).collect();
    let eo = ll::EncOpts { lc: props.lc, lp: props.lp, pb: props.pb, dict_size: *rng.pick(&[4096u32, 1 << 16, 1 << 20]), ..Default::default() };
    let enc = match ll::lzma2_raw_encode(&plain, &eo, &flushes) {
        Some(e) => e,
        None => {
            out.harness_error("liblzma lzma2 encode failed");
            return out;
        }
    };
    let need_dict = plain.len() as u64;
    let w = Written { bytes: enc, chunks: vec![], output: plain, need_dict };
    let desc = format!("liblzma LZMA2 stream, {} plain bytes, {} sync flushes, lc{} lp{} pb{}", w.output.len(), flushes.len(), props.lc, props.lp, props.pb);
    check_stream("liblzma", &w, &desc, &mut out, cov, ctx, &mut rng, false);
    cov.name("liblzma_encoded_streams", 1);
    out.sample = Some(J::obj().set("what", J::s(desc)).set("stream_len", J::i(w.bytes.len())));
    out
}

fn label(group: &str, i: u32) -> String {
    match group {
        "raw_decoder_used_before" => ["earlier call failed", "earlier call succeeded"][i as usize].to_string(),
        "api" => API[i as usize].to_string(),
        _ => std_label(group, i),
    }
}

fn floors(_: Tier, cov: &Cov) -> Vec<String> {
    let mut m = Vec::new();
    if cov.group_nonzero("chunk_class") < 6 {
        m.push(format!("only {}/6 chunk classes parsed", cov.group_nonzero("chunk_class")));
    }
    // transitions liblzma allows: 36 minus (0x01 -> 0x80/0xA0) = 34
    if cov.group_nonzero("chunk_trans") < 34 {
        m.push(format!("only {}/34 legal chunk-class transitions parsed", cov.group_nonzero("chunk_trans")));
    }
    if cov.get_named("copies_reaching_into_earlier_lzma_chunk") < 100 || cov.get_named("copies_reaching_into_earlier_raw_chunk") < 100 {
        m.push("too few cross-chunk copies".into());
    }
    if cov.maxes.get("chunk_packed").copied().unwrap_or(0) < 65536 {
        m.push("no chunk with the maximal compressed size 65536 decoded".into());
    }
    if cov.maxes.get("chunk_unpacked").copied().unwrap_or(0) < (1 << 21) {
        m.push("no 2 MiB chunk decoded".into());
    }
    m
}

pub fn monitor(tier: Tier) -> Monitor {
    Monitor {
        id: "C02",
        level: "exploration",
        rule: "cases = chunk sequences (random over the 6 control classes with inherited state; property changes keeping / changing lc+lp; size extremes 1 byte / 64 KiB raw / 2 MiB from <= 64 KiB / compressed payload of exactly 65535 and 65536 bytes; liblzma-written multi-chunk streams) serialised by the reference LZMA2 writer, decoded by lzma2_decompress / raw Lzma2Decoder / xz_decompress; every generated stream is also decoded by liblzma; non-trivial = the Chunk hook saw >= 1 chunk parsed; distinct by hash of (input, api)",
        assumptions: vec![
            "ground truth = interpret() over the chunk programs with the history cut at dictionary resets".into(),
            "only sequences liblzma also accepts are generated (first chunk resets the dictionary, properties follow a dictionary reset, lc+lp<=4)".into(),
        ],
        families: vec![
            Family { name: "sizes", count: tier.pick(36, 360), priority: true, enumerated: false, run: fam_sizes },
            Family { name: "tiny", count: tier.pick(7 * 60, 7 * 600), priority: true, enumerated: false, run: fam_tiny },
            Family { name: "random", count: tier.pick(12_000, 600_000), priority: false, enumerated: false, run: fam_random },
            Family { name: "props", count: tier.pick(4_000, 150_000), priority: false, enumerated: false, run: fam_props },
            Family { name: "extremes", count: tier.pick(300, 8_000), priority: false, enumerated: false, run: fam_extremes },
            Family { name: "long", count: tier.pick(4, 48), priority: false, enumerated: false, run: fam_long },
            Family { name: "liblzma", count: tier.pick(300, 6_000), priority: false, enumerated: false, run: fam_liblzma },
        ],
        label,
        floors,
        summarize: |cov| {
            J::obj()
                .set("chunk_classes_parsed", J::s(format!("{}/6", cov.group_nonzero("chunk_class"))))
                .set("chunk_transitions_parsed", J::s(format!("{}/34 legal", cov.group_nonzero("chunk_trans"))))
        },
    }
}

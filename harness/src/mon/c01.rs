//! C01 - LZMA decoding is exact for every well-formed stream.

use super::common::*;
use crate::gen::io::{ReaderKind, SharedSink};
use crate::gen::prog::{corner_program, structured_data, LitMode, ProgGen, ProgParams};
use crate::liblzma as ll;
use crate::refmodel::lzma::Props;
use crate::refmodel::program::{Interp, Sym};
use crate::runner::*;
use crate::sut::{self, Entry, Verdict};
use crate::util::{Rng, J};
use lzma_rs::decompress::UnpackedSize;

/// How the stream is terminated / which option tells the decoder the size.
#[derive(Clone, Copy, Debug, PartialEq, Eq)]
pub enum Term {
    /// header size all-ones, end marker
    Marker,
    /// header size = length, no marker
    HeaderSize,
    /// header size = length, marker present as well
    HeaderSizeAndMarker,
    /// 5-byte header, size supplied by the caller
    ProvidedNoHeaderField,
    /// 13-byte header (field says something else), size supplied by the caller
    ProvidedOverride,
    /// raw decoder, size given to the constructor
    RawSized,
    /// raw decoder, no size, end marker
    RawMarker,
}

pub const TERMS: [Term; 7] = [
    Term::Marker,
    Term::HeaderSize,
    Term::HeaderSizeAndMarker,
    Term::ProvidedNoHeaderField,
    Term::ProvidedOverride,
    Term::RawSized,
    Term::RawMarker,
];

impl Term {
    pub fn wants_marker(&self) -> bool {
        matches!(self, Term::Marker | Term::HeaderSizeAndMarker | Term::RawMarker)
    }
    pub fn is_raw(&self) -> bool {
        matches!(self, Term::RawSized | Term::RawMarker)
    }
}

pub struct PositiveCase<'a> {
    pub props: Props,
    /// program without Eos
    pub prog: &'a [Sym],
    pub term: Term,
    /// dictionary size written to the header / given to the raw constructor
    pub dict: u32,
    pub reader: ReaderKind,
    pub max_dist: u64,
}

/// Run one well-formed stream through lzma-rs and judge it. Returns the
/// expected output length (for callers' statistics).
pub fn check_positive(
    pc: &PositiveCase,
    tag: &str,
    out: &mut CaseOut,
    cov: &mut Cov,
    ctx: &CaseCtx,
    cross_check: bool,
) -> Option<usize> {
    let mut prog = pc.prog.to_vec();
    if pc.term.wants_marker() {
        prog.push(Sym::Eos);
    }
    let enc = encode_valid(&prog, pc.props, out)?;
    let len = enc.output.len() as u64;
    // the sink's acceptance pattern must not matter (mostly whole writes, sometimes 1 byte / random)
    let sink = SharedSink::varied(ctx.index ^ enc.payload.len() as u64, enc.output.len());
    let obs = sut::new_obs(u64::MAX);
    obs.borrow_mut().record_syms = ctx.verbose;
    obs.borrow_mut().pb = Some(pc.props.pb);
    let (verdict, file): (Verdict, Vec<u8>) = if pc.term.is_raw() {
        let size = if pc.term == Term::RawSized { Some(len) } else { None };
        match sut::raw_lzma_new(pc.props.lc, pc.props.lp, pc.props.pb, pc.dict, size, None) {
            Ok(mut dec) => {
                // a third of the raw-decoder cases reuse an object that has already decoded another
                // well-formed stream (a prefix of this program) and was reset: nothing of the earlier
                // decode - window contents, lengths, sizes - may leak into this one
                if (ctx.index ^ enc.payload.len() as u64) % 3 == 1 && pc.prog.len() >= 4 && enc.output.len() < (1 << 20) {
                    let half = &pc.prog[..pc.prog.len() / 2];
                    if let Ok((wp, _, wh)) = crate::refmodel::lzma::encode_program(half, pc.props) {
                        let _ = sut::guarded(|| dec.reset(Some(Some(wh.len() as u64))));
                        let w = sut::raw_lzma_decompress(&mut dec, &wp, ReaderKind::Slice, &SharedSink::counting_only(), &sut::new_obs(u64::MAX));
                        if w.verdict.is_abnormal() {
                            return Some(enc.output.len());
                        }
                        let _ = sut::guarded(|| dec.reset(Some(size)));
                        cov.name("raw_decoder_object_reused_after_another_stream", 1);
                    }
                }
                let c = sut::raw_lzma_decompress(&mut dec, &enc.payload, pc.reader, &sink, &obs);
                (c.verdict, enc.payload.clone())
            }
            Err(v) => (v, enc.payload.clone()),
        }
    } else {
        let (hdr, us) = match pc.term {
            Term::Marker => (
                sut::lzma_header(pc.props.byte(), pc.dict, Some(None)),
                UnpackedSize::ReadFromHeader,
            ),
            Term::HeaderSize | Term::HeaderSizeAndMarker => (
                sut::lzma_header(pc.props.byte(), pc.dict, Some(Some(len))),
                UnpackedSize::ReadFromHeader,
            ),
            Term::ProvidedNoHeaderField => (
                sut::lzma_header(pc.props.byte(), pc.dict, None),
                UnpackedSize::UseProvided(Some(len)),
            ),
            _ => (
                sut::lzma_header(pc.props.byte(), pc.dict, Some(Some(len ^ 0x55))),
                UnpackedSize::ReadHeaderButUseProvided(Some(len)),
            ),
        };
        let mut file = hdr;
        file.extend_from_slice(&enc.payload);
        // a limit that covers the whole dictionary can never bind (C10): a sixth of the cases set
        // one just above the effective dictionary size
        let ml = if (ctx.index ^ file.len() as u64) % 6 == 2 {
            let d_eff = (pc.dict as usize).max(4096);
            cov.name("cases_with_a_non_binding_memory_limit", 1);
            Some(d_eff + [0usize, 1, 100, 271, 272, 4096][((ctx.index >> 3) % 6) as usize])
        } else {
            None
        };
        let o = sut::opts(us, ml, false);
        let c = sut::decode(Entry::Lzma, &file, &o, pc.reader, &sink, &obs);
        (c.verdict, file)
    };
    out.evals += 1;
    let got = sink.bytes();
    let o = obs.borrow();
    cov_from_obs(cov, &o);
    cov.inc("term", pc.term as u32);
    let nontrivial = prog.iter().any(|s| !matches!(s, Sym::Lit(_) | Sym::Eos)) && o.syms > 0;
    if nontrivial {
        out.nontrivial.push(case_hash(&[&file, &[pc.term as u8], &pc.dict.to_le_bytes()]));
    }
    if ctx.verbose {
        ctx.say(format!(
            "props lc{} lp{} pb{} dict {} term {:?} reader {} -> {} ({} bytes out, expected {})",
            pc.props.lc,
            pc.props.lp,
            pc.props.pb,
            pc.dict,
            pc.term,
            pc.reader.name(),
            verdict.short(),
            got.len(),
            enc.output.len()
        ));
        ctx.say(format!("program: {}", crate::refmodel::program::program_short(&prog, 60)));
    }
    let good = verdict.is_ok() && got == enc.output;
    if !good {
        // arbitration: does liblzma side with the model?
        let judge = liblzma_judge_lzma(
            pc.props,
            &enc.payload,
            if enc.has_marker && pc.term != Term::HeaderSizeAndMarker {
                None
            } else {
                Some(len)
            },
            pc.max_dist.max(1),
        );
        match judge {
            Some(Ok(ref b)) if *b == enc.output => {}
            None => {}
            Some(other) => {
                out.harness_error(format!(
                    "{}: model and liblzma disagree on a generated stream (liblzma: {:?}); lzma-rs said {}",
                    tag,
                    other.map(|b| b.len()),
                    verdict.short()
                ));
                return Some(enc.output.len());
            }
        }
        let what = if verdict.is_ok() {
            let d = first_diff(&enc.output, &got);
            let si = sym_at_offset(&enc.table, d as u64);
            format!(
                "wrong output: {}; symbol #{} = {}",
                describe_mismatch(&enc.output, &got),
                si,
                prog.get(si).map(|s| s.short()).unwrap_or_default()
            )
        } else {
            format!("well-formed stream not decoded: {}", verdict.short())
        };
        let sig = if verdict.is_ok() {
            "C01/wrong-output".to_string()
        } else {
            format!("C01/{}", verdict_sig(&verdict))
        };
        out.violate(
            sig,
            format!(
                "{} [{} lc{} lp{} pb{} dict {} term {:?} reader {}]: {}",
                tag,
                ctx.family,
                pc.props.lc,
                pc.props.lp,
                pc.props.pb,
                pc.dict,
                pc.term,
                pc.reader.name(),
                what
            ),
            J::obj()
                .set("input_hex", J::s(crate::util::hex_trunc(&file, 4096)))
                .set("program", J::s(crate::refmodel::program::program_short(&prog, 400)))
                .set("expected_len", J::i(enc.output.len())),
        );
    } else if cross_check && file.len() < (1 << 20) {
        // keep the oracle honest on positive cases too
        if let Some(j) = liblzma_judge_lzma(
            pc.props,
            &enc.payload,
            if enc.has_marker && pc.term != Term::HeaderSizeAndMarker {
                None
            } else {
                Some(len)
            },
            pc.max_dist.max(1),
        ) {
            cov.name("liblzma_cross_checked", 1);
            match j {
                Ok(b) if b == enc.output => {}
                other => out.harness_error(format!(
                    "{}: liblzma does not confirm a generated stream ({:?})",
                    tag,
                    other.map(|b| b.len())
                )),
            }
        }
    }
    Some(enc.output.len())
}

fn sample_of(pc: &PositiveCase, n_out: usize) -> J {
    J::obj()
        .set("props", J::s(format!("lc{} lp{} pb{}", pc.props.lc, pc.props.lp, pc.props.pb)))
        .set("dict", J::i(pc.dict))
        .set("termination", J::s(format!("{:?}", pc.term)))
        .set("reader", J::s(pc.reader.name()))
        .set("symbols", J::i(pc.prog.len()))
        .set("output_len", J::i(n_out))
        .set("program", J::s(crate::refmodel::program::program_short(pc.prog, 24)))
}

// --- families --------------------------------------------------------------

/// 12 states x 7 kinds x 8 variants, props rotating through all 225 settings.
fn fam_corners(ctx: &CaseCtx, cov: &mut Cov) -> CaseOut {
    let mut out = CaseOut::default();
    let i = ctx.index as usize;
    let state = i % 12;
    let kind = (i / 12) % 7;
    let variant = i / 84;
    let props = all_props()[(i * 7 + variant) % 225];
    let prog = corner_program(state, kind, variant);
    let term = TERMS[i % TERMS.len()];
    let pc = PositiveCase {
        props,
        prog: &prog,
        term,
        dict: [0u32, 1, 4095, 4096, 4097, 1 << 16][i % 6],
        reader: ReaderKind::Slice,
        max_dist: 64,
    };
    // raw decoders take the dictionary size literally: keep it >= distances
    let pc = if term.is_raw() {
        PositiveCase {
            dict: [32u32, 64, 4096, 1 << 20][i % 4],
            ..pc
        }
    } else {
        pc
    };
    let n = check_positive(&pc, "corner", &mut out, cov, ctx, true);
    out.sample = n.map(|n| sample_of(&pc, n));
    out
}

/// every (lc, lp, pb): one coverage-steered program, several terminations
fn fam_all_props(ctx: &CaseCtx, cov: &mut Cov) -> CaseOut {
    let mut out = CaseOut::default();
    let pi = (ctx.index % 225) as usize;
    let props = all_props()[pi];
    let mut rng = ctx.rng();
    let n_syms = ctx.tier.pick(500, 2500);
    let mut it = Interp::new();
    let mut pg = ProgGen::new();
    let mut pp = ProgParams::standard(n_syms, 4096);
    pp.lit_mode = LitMode::Mixed;
    let prog = pg.generate(&mut rng, &pp, &mut it);
    cov.inc("props", pi as u32);
    let mut n = None;
    for (k, term) in [Term::Marker, Term::HeaderSize, Term::RawSized].iter().enumerate() {
        let pc = PositiveCase {
            props,
            prog: &prog,
            term: *term,
            dict: if term.is_raw() { 4096 } else { [4096u32, 0, 1 << 20][k] },
            reader: ReaderKind::Slice,
            max_dist: 4096,
        };
        n = check_positive(&pc, "all_props", &mut out, cov, ctx, k == 0);
        if k == 0 {
            out.sample = n.map(|n| sample_of(&pc, n));
        }
    }
    let _ = n;
    out
}

/// the smallest streams there are: nothing at all, one literal, two literals, a literal and a
/// short repeat - every (lc, lp, pb), every termination style, every reader shape in turn
fn fam_tiny(ctx: &CaseCtx, cov: &mut Cov) -> CaseOut {
    let mut out = CaseOut::default();
    let i = ctx.index as usize;
    let props = all_props()[i % 225];
    let shape = (i / 225) % 4;
    let b = (i as u8).wrapping_mul(37);
    let prog: Vec<Sym> = match shape {
        0 => vec![],
        1 => vec![Sym::Lit(b)],
        2 => vec![Sym::Lit(b), Sym::Lit(b ^ 0xFF)],
        _ => vec![Sym::Lit(b), Sym::ShortRep],
    };
    let term = TERMS[(i / 900 + i) % TERMS.len()];
    let pc = PositiveCase {
        props,
        prog: &prog,
        term,
        dict: if term.is_raw() { [1u32, 32, 4096][i % 3] } else { [0u32, 1, 4096, 0xFFFF_FFFF][i % 4] },
        reader: ReaderKind::from_selector(i as u64 / 7),
        max_dist: 1,
    };
    cov.name(["tiny.empty", "tiny.one_literal", "tiny.two_literals", "tiny.literal_shortrep"][shape], 1);
    let n = check_positive(&pc, "tiny", &mut out, cov, ctx, true);
    out.sample = n.map(|n| sample_of(&pc, n));
    out
}

/// streams that go on producing output long after their last input byte has been read: one
/// literal (or a short preamble), then hundreds of the cheapest symbol there is - a repeat of
/// the last distance at full length (273 bytes for a fraction of a bit once the probabilities
/// have adapted). A decoder that takes "input exhausted while much is still owed" for truncation
/// rejects them.
fn fam_cheap_tail(ctx: &CaseCtx, cov: &mut Cov) -> CaseOut {
    let mut out = CaseOut::default();
    let i = ctx.index as usize;
    let mut rng = ctx.rng();
    let props = if i % 3 == 0 { Props::new(3, 0, 2) } else { random_props(&mut rng) };
    let mut prog: Vec<Sym> = Vec::new();
    for _ in 0..[1usize, 1, 2, 5, 40][i % 5] {
        prog.push(Sym::Lit(rng.byte()));
    }
    let n = [20usize, 60, 150, 200, 249, 400][(i / 5) % 6];
    let len = if (i / 30) % 4 == 3 { 272 } else { 273 };
    for _ in 0..n {
        prog.push(Sym::Rep { idx: 0, len });
    }
    let term = [Term::HeaderSize, Term::ProvidedNoHeaderField, Term::RawSized, Term::ProvidedOverride, Term::HeaderSizeAndMarker, Term::Marker][(i / 7) % 6];
    let pc = PositiveCase {
        props,
        prog: &prog,
        term,
        dict: if term.is_raw() { [4096u32, 1 << 20][i % 2] } else { [4096u32, 0, 1 << 16, 1 << 23][i % 4] },
        reader: ReaderKind::from_selector(i as u64 / 3),
        max_dist: 1,
    };
    cov.name("cheap_tail.streams", 1);
    let n_out = check_positive(&pc, "cheap_tail", &mut out, cov, ctx, true);
    out.sample = n_out.map(|n| sample_of(&pc, n));
    out
}

fn random_props(rng: &mut Rng) -> Props {
    if rng.chance(1, 3) {
        // the settings real encoders use
        *rng.pick(&[Props::new(3, 0, 2), Props::new(0, 2, 2), Props::new(4, 0, 0), Props::new(0, 0, 0), Props::new(8, 4, 4)])
    } else {
        Props::new(rng.below(9) as u32, rng.below(5) as u32, rng.below(5) as u32)
    }
}

/// random programs, option shapes, header dictionary sizes; metamorphic
/// re-runs under other declared dictionary sizes
fn fam_random(ctx: &CaseCtx, cov: &mut Cov) -> CaseOut {
    let mut out = CaseOut::default();
    // a quarter of the cases: the end marker (where one is written) carries another length field
    // than the customary 2 - it is the distance 2^32 - 1 alone that makes a match the marker
    let _eos = if ctx.index % 4 == 3 {
        cov.name("end_marker_with_length_field_other_than_2", 1);
        Some(crate::refmodel::lzma::with_eos_len([3u32, 9, 10, 17, 18, 100, 273][(ctx.index as usize / 4) % 7]))
    } else {
        None
    };
    let mut rng = ctx.rng();
    let props = random_props(&mut rng);
    let max_dist: u64 = *rng.pick(&[4096u64, 4096, 5000, 1 << 16, 1 << 20]);
    let n_syms = rng.range(1, ctx.tier.pick(1500, 6000)) as usize;
    let mut pp = ProgParams::standard(n_syms, max_dist);
    pp.long_bias = rng.chance(1, 5);
    pp.lit_mode = *rng.pick(&[LitMode::Mixed, LitMode::Random, LitMode::NearMatch, LitMode::LowEntropy]);
    pp.steer = rng.chance(2, 3);
    let mut it = Interp::new();
    let mut pg = ProgGen::new();
    let prog = pg.generate(&mut rng, &pp, &mut it);
    let term = *rng.pick(&TERMS);
    // header dictionary: anything >= the largest distance, or (when all
    // distances fit in 4096) anything below 4096 as well
    let mut dicts: Vec<u32> = vec![max_dist as u32, (max_dist as u32).saturating_add(1), 0x7F7F_7F7F, u32::MAX, 1 << 24];
    if max_dist <= 4096 && !term.is_raw() {
        dicts.extend_from_slice(&[0, 1, 17, 4095]);
    }
    let d0 = *rng.pick(&dicts);
    let reader = if rng.chance(1, 3) { ReaderKind::random(&mut rng) } else { ReaderKind::Slice };
    let pc = PositiveCase {
        props,
        prog: &prog,
        term,
        dict: d0,
        reader,
        max_dist,
    };
    let n = check_positive(&pc, "random", &mut out, cov, ctx, true);
    out.sample = n.map(|n| sample_of(&pc, n));
    // metamorphic: same stream, two other declared dictionary sizes
    for _ in 0..2 {
        let d = *rng.pick(&dicts);
        if d == d0 {
            continue;
        }
        let pc2 = PositiveCase { dict: d, ..PositiveCase { props, prog: &prog, term, dict: d, reader: ReaderKind::Slice, max_dist } };
        check_positive(&pc2, "random/other-dict", &mut out, cov, ctx, false);
        cov.name("metamorphic_dict_reruns", 1);
    }
    out
}

/// outputs many times larger than the window, copies straddling the wrap point
fn fam_wrap(ctx: &CaseCtx, cov: &mut Cov) -> CaseOut {
    let mut out = CaseOut::default();
    let mut rng = ctx.rng();
    let props = random_props(&mut rng);
    let small_raw = rng.chance(1, 2);
    let (dict, term): (u32, Term) = if small_raw {
        (
            rng.range(1, 64) as u32,
            *rng.pick(&[Term::RawSized, Term::RawMarker]),
        )
    } else {
        (
            *rng.pick(&[4096u32, 4096, 0, 4097, 5000, 8192]),
            *rng.pick(&[Term::Marker, Term::HeaderSize, Term::RawSized]),
        )
    };
    // the raw constructor takes the dictionary size literally (and refuses 0)
    let dict = if term.is_raw() && dict == 0 { 4096 } else { dict };
    let eff = if term.is_raw() { dict as u64 } else { (dict as u64).max(4096) };
    let laps = rng.range(1, ctx.tier.pick(12, 64));
    let target = (eff * laps + rng.below(eff + 1)) as usize;
    let mut pp = ProgParams::standard(usize::MAX / 2, eff);
    pp.max_out = target.max(1);
    pp.long_bias = eff >= 4096 && rng.chance(2, 3);
    pp.w = [10, 30, 4, 8, 4, 4, 4];
    let mut it = Interp::new();
    let mut pg = ProgGen::new();
    let mut prog = pg.generate(&mut rng, &pp, &mut it);
    // one stream in five ends exactly on a window boundary: the output is a whole number of
    // windows and the last one is full when the decoder finishes
    if ctx.index % 5 == 2 {
        let l = it.hist.len() as u64;
        for k in 0..(eff - l % eff) % eff {
            prog.push(Sym::Lit((k as u8).wrapping_mul(31) ^ 0x55));
        }
        cov.name("wrap.output_is_a_whole_number_of_windows", 1);
    }
    let pc = PositiveCase {
        props,
        prog: &prog,
        term,
        dict,
        reader: ReaderKind::Slice,
        max_dist: eff,
    };
    let n = check_positive(&pc, "wrap", &mut out, cov, ctx, !term.is_raw());
    cov.max("output_over_window_x", n.unwrap_or(0) as u64 / eff.max(1));
    out.sample = n.map(|n| sample_of(&pc, n));
    out
}

/// streams written by a real encoder (liblzma), lc + lp <= 4
fn fam_liblzma(ctx: &CaseCtx, cov: &mut Cov) -> CaseOut {
    let mut out = CaseOut::default();
    let mut rng = ctx.rng();
    let props = loop {
        let p = random_props(&mut rng);
        if p.lc + p.lp <= 4 {
            break p;
        }
    };
    let n = rng.range(0, ctx.tier.pick(60_000, 400_000)) as usize;
    let plain = structured_data(&mut rng, n);
    let mode = *rng.pick(&[1, 2]);
    let eo = ll::EncOpts {
        lc: props.lc,
        lp: props.lp,
        pb: props.pb,
        dict_size: *rng.pick(&[4096u32, 8192, 1 << 16]),
        mode,
        nice_len: rng.range(5, 273) as u32,
        mf: if mode == 1 { *rng.pick(&[0x03, 0x04]) } else { *rng.pick(&[0x12, 0x13, 0x14]) },
        depth: 0,
    };
    let file = match ll::alone_encode(&plain, &eo) {
        Some(f) => f,
        None => {
            out.harness_error("liblzma alone_encode failed");
            return out;
        }
    };
    let sink = SharedSink::new();
    let obs = sut::new_obs(u64::MAX);
    let reader = if rng.chance(1, 3) { ReaderKind::random(&mut rng) } else { ReaderKind::Slice };
    let c = sut::decode(Entry::Lzma, &file, &sut::default_options(), reader, &sink, &obs);
    out.evals += 1;
    cov_from_obs(cov, &obs.borrow());
    cov.name("liblzma_encoded_streams", 1);
    if obs.borrow().syms > 0 {
        out.nontrivial.push(case_hash(&[&file]));
    }
    let got = sink.bytes();
    if !(c.verdict.is_ok() && got == plain) {
        let what = if c.verdict.is_ok() {
            format!("wrong output: {}", describe_mismatch(&plain, &got))
        } else {
            format!("not decoded: {}", c.verdict.short())
        };
        out.violate(
            if c.verdict.is_ok() { "C01/wrong-output".to_string() } else { format!("C01/{}", verdict_sig(&c.verdict)) },
            format!("liblzma-encoded .lzma (lc{} lp{} pb{} dict {}): {}", props.lc, props.lp, props.pb, eo.dict_size, what),
            J::obj().set("input_hex", J::s(crate::util::hex_trunc(&file, 4096))),
        );
    }
    out.sample = Some(
        J::obj()
            .set("encoder", J::s("liblzma alone_encoder"))
            .set("props", J::s(format!("lc{} lp{} pb{}", props.lc, props.lp, props.pb)))
            .set("plain_len", J::i(plain.len()))
            .set("file_len", J::i(file.len())),
    );
    out
}

/// large distances: build a long history cheaply, then reference far back
fn fam_far(ctx: &CaseCtx, cov: &mut Cov) -> CaseOut {
    let mut out = CaseOut::default();
    let mut rng = ctx.rng();
    let log = match ctx.tier {
        Tier::Quick => 20 + (ctx.index % 3) as u32,       // up to 2^22
        Tier::Thorough => if ctx.index == 0 { 28 } else { 22 + (ctx.index % 5) as u32 }, // one 2^28 case, else up to 2^26
    };
    let span: u64 = 1 << log;
    let props = random_props(&mut rng);
    let mut it = Interp::new();
    let mut prog: Vec<Sym> = Vec::new();
    // seed: 64 random literals, then grow with long matches at varying distances
    for _ in 0..64 {
        let s = Sym::Lit(rng.byte());
        it.step(&s);
        prog.push(s);
    }
    while (it.hist.len() as u64) < span + 4096 {
        let n = it.hist.len() as u64;
        let s = if rng.chance(1, 40) {
            Sym::Lit(rng.byte())
        } else {
            Sym::Match {
                dist: crate::gen::prog::pick_dist(&mut rng, n.min(span), span) as u32,
                len: 273,
            }
        };
        it.step(&s);
        prog.push(s);
    }
    // far references across every slot up to the span
    for _ in 0..200 {
        let n = it.hist.len() as u64;
        let s = Sym::Match {
            dist: crate::gen::prog::pick_dist(&mut rng, n.min(span), span) as u32,
            len: crate::gen::prog::pick_len(&mut rng, false),
        };
        it.step(&s);
        prog.push(s);
        let s = Sym::Lit(rng.byte());
        it.step(&s);
        prog.push(s);
    }
    let term = *rng.pick(&[Term::Marker, Term::HeaderSize]);
    let pc = PositiveCase {
        props,
        prog: &prog,
        term,
        dict: span as u32,
        reader: ReaderKind::Slice,
        max_dist: span,
    };
    let n = check_positive(&pc, "far", &mut out, cov, ctx, log <= 22);
    cov.max("distance_log2", log as u64);
    out.sample = n.map(|n| sample_of(&pc, n));
    out
}
/// Streams CONSTRUCTED so that the range register sits exactly at the threshold of the
/// normalisation test (2^24 - 1, 2^24, 2^24 + 1) right after a direct-bit halving - about
/// 5e-8 per match in random streams. A search over (state, length, slot) on the
/// reference encoder finds a match whose header leaves the right range; its direct bits
/// are then all ones, so a byte fetched one bit late or early changes the distance.
fn fam_norm_boundary(ctx: &CaseCtx, cov: &mut Cov) -> CaseOut {
    use crate::refmodel::lzma::{Encoder, Model};
    let mut out = CaseOut::default();
    let mut rng = ctx.rng();
    let props = if rng.chance(1, 2) { Props::new(0, 0, rng.below(5) as u32) } else { crate::gen::l2gen::random_props_l2(&mut rng) };
    let mut model = Model::new(props);
    let mut hist: Vec<u8> = Vec::new();
    let mut enc = Encoder::new(&mut model, &mut hist);
    let mut prog: Vec<Sym> = Vec::new();
    let push = |enc: &mut Encoder, prog: &mut Vec<Sym>, s: Sym| {
        let _ = enc.push(&s);
        prog.push(s);
    };
    for _ in 0..rng.range(40, 200) {
        push(&mut enc, &mut prog, Sym::Lit(rng.byte()));
    }
    let want_hist = 1usize << rng.range(9, 17);
    while enc.hist.len() < want_hist {
        let n = enc.hist.len() as u64;
        push(&mut enc, &mut prog, Sym::Match { dist: rng.range(1, n) as u32, len: 273 });
    }
    let max_states = ctx.tier.pick(80_000, 400_000);
    let mut found: Option<(u32, u32, u32, u32)> = None; // (len, slot, j, value class)
    let mut states = 0u64;
    'search: while states < max_states {
        states += 1;
        let n = enc.hist.len() as u64;
        // largest slot whose whole distance range fits into the history
        let log = 63 - n.leading_zeros() as u64;
        let max_slot = ((2 * log).saturating_sub(1)).min(40) as u32;
        for len in 2..=273u32 {
            let r_len = enc.trial_match_len(len);
            // slot probabilities depend on min(len - 2, 3) only, the range on the length
            for slot in 14..=max_slot {
                let mut r = enc.trial_slot(r_len, len, slot);
                let nd = (slot >> 1) - 5;
                for j in 0..nd {
                    r >>= 1;
                    let class = match r {
                        0x00FF_FFFF => 0,
                        0x0100_0000 => 1,
                        0x0100_0001 => 2,
                        _ => 3,
                    };
                    // each case aims at one of the three values (so that all are covered);
                    // any of them will do once half the budget is spent
                    if class < 3 && (class as u64 == ctx.index % 3 || states > max_states / 2) {
                        found = Some((len, slot, j, class));
                        break 'search;
                    }
                    if r < 0x0100_0000 {
                        r <<= 8;
                    }
                }
            }
        }
        let s = match rng.below(10) {
            0..=6 => Sym::Lit(rng.byte()),
            7 | 8 => Sym::Match { dist: rng.range(1, n) as u32, len: rng.range(2, 12) as u32 },
            _ => Sym::Rep { idx: rng.below(4) as u8, len: rng.range(2, 12) as u32 },
        };
        // reps may point beyond the history right after the start: only push what is valid
        let valid = match s {
            Sym::Rep { idx, .. } => (enc.model.reps[idx as usize] as u64) < n,
            _ => true,
        };
        if valid {
            push(&mut enc, &mut prog, s);
        }
    }
    cov.name("norm_boundary.search_states", states);
    let (len, slot, _j, class) = match found {
        Some(f) => f,
        None => {
            cov.name("norm_boundary.search_gave_up", 1);
            return out;
        }
    };
    let footer = (slot >> 1) - 1;
    let base = (2 | (slot & 1)) << footer;
    let reduced = (((1u32 << (footer - 4)) - 1) << 4) | rng.below(16) as u32;
    let before = enc.rc.boundary;
    push(&mut enc, &mut prog, Sym::Match { dist: base + reduced + 1, len });
    let after = enc.rc.boundary;
    if after[3 + class as usize] == before[3 + class as usize] {
        out.harness_error("norm_boundary: the constructed match did not reach the predicted range");
        return out;
    }
    cov.inc("norm_boundary_after_direct_bit", class);
    for _ in 0..rng.range(2, 12) {
        push(&mut enc, &mut prog, Sym::Lit(rng.byte()));
    }
    for (i, name) in ["model bit: 2^24-1", "model bit: 2^24", "model bit: 2^24+1"].iter().enumerate() {
        cov.name(&format!("norm_boundary.also_seen_after_{}", name), enc.rc.boundary[i]);
    }
    drop(enc);
    let term = *rng.pick(&[Term::Marker, Term::HeaderSize, Term::ProvidedNoHeaderField]);
    let pc = PositiveCase { props, prog: &prog, term, dict: 1 << 20, reader: ReaderKind::Slice, max_dist: 1 << 20 };
    let n = check_positive(&pc, "norm_boundary", &mut out, cov, ctx, true);
    out.sample = n.map(|n| sample_of(&pc, n));
    out
}
/// One stream whose output exceeds 2^32 bytes (thorough tier only): a periodic text grown
/// by copies at distances that are multiples of the period, so that every 32-bit counter
/// of produced bytes / window positions would wrap. About 16 million symbols.
fn fam_beyond_4gib(ctx: &CaseCtx, cov: &mut Cov) -> CaseOut {
    let mut out = CaseOut::default();
    let mut rng = ctx.rng();
    let props = random_props(&mut rng);
    let period = rng.range(3, 200) as usize;
    let dict: u32 = *rng.pick(&[4096u32, 1 << 16, 1 << 20]);
    let target: u64 = (1u64 << 32) + rng.range(1, 1 << 20);
    let mut prog: Vec<Sym> = Vec::with_capacity(17_000_000);
    let pattern = rng.bytes(period);
    for &b in &pattern {
        prog.push(Sym::Lit(b));
    }
    let mut n = period as u64;
    while n < target {
        let max_k = (n.min(dict as u64) / period as u64).max(1);
        let dist = (rng.range(1, max_k) * period as u64) as u32;
        if rng.chance(1, 50) {
            // a literal that continues the period (coded against its match byte after a copy)
            prog.push(Sym::Lit(pattern[(n % period as u64) as usize]));
            n += 1;
        } else {
            let len = if rng.chance(7, 8) { 273 } else { rng.range(2, 273) as u32 };
            let len = (len as u64).min(target - n).max(2) as u32;
            prog.push(Sym::Match { dist, len });
            n += len as u64;
        }
    }
    let term = *rng.pick(&[Term::Marker, Term::HeaderSize]);
    let pc = PositiveCase { props, prog: &prog, term, dict, reader: ReaderKind::Slice, max_dist: dict as u64 };
    let n = check_positive(&pc, "beyond_4gib", &mut out, cov, ctx, false);
    if let Some(n) = n {
        cov.max("output_bytes_of_one_stream", n as u64);
    }
    out.sample = n.map(|n| sample_of(&pc, n));
    out
}

fn floors(tier: Tier, cov: &Cov) -> Vec<String> {
    let mut miss = Vec::new();
    if cov.get("norm_boundary_after_direct_bit", 0) == 0 || cov.get("norm_boundary_after_direct_bit", 1) == 0 {
        miss.push("range register not seen at 2^24 - 1 and at 2^24 (the two sides of the normalisation test) after a direct bit".into());
    }
    let cells = (0..12 * 8)
        .filter(|i| i % 8 != 7 && cov.get("cell", *i as u32) > 0)
        .count();
    if cells < 84 {
        miss.push(format!("only {}/84 (state x kind) cells decoded", cells));
    }
    if cov.group_nonzero("props") < 225 {
        miss.push(format!("only {}/225 lc/lp/pb settings", cov.group_nonzero("props")));
    }
    // probability contexts as decoded (needs pb = 4 streams for all 16 position states)
    if cov.group_nonzero("ctx_is_match") < 192 {
        miss.push(format!("only {}/192 is_match contexts (state x pos_state) decoded", cov.group_nonzero("ctx_is_match")));
    }
    if cov.group_nonzero("ctx_len") < 96 {
        miss.push(format!("only {}/96 length-coder contexts (coder x class x pos_state) decoded", cov.group_nonzero("ctx_len")));
    }
    let slot_ctx = (0..4 * 64).filter(|i| i % 64 <= 23 && cov.get("ctx_slot", *i as u32) > 0).count();
    if slot_ctx < 96 {
        miss.push(format!("only {}/96 (len_state x slot 0-23) contexts decoded", slot_ctx));
    }
    if cov.group_nonzero("len_edge") < 6 {
        miss.push("not all edge lengths 2/9/10/17/18/273 decoded".into());
    }
    let straddles = cov.get_named("win.src_straddle") + cov.get_named("win.dst_straddle");
    if straddles < 100 {
        miss.push(format!("only {} wrap-straddling copies", straddles));
    }
    if cov.get_named("win.dist_eq_dict") == 0 {
        miss.push("no copy with distance == dictionary size".into());
    }
    let _ = tier;
    miss
}

fn summarize(cov: &Cov) -> J {
    let cells = (0..12 * 8)
        .filter(|i| i % 8 != 7 && cov.get("cell", *i as u32) > 0)
        .count();
    let slots = (0..64).filter(|i| cov.get("dist_slot", *i) > 0).count();
    let max_slot = (0..64).rev().find(|i| cov.get("dist_slot", *i) > 0).unwrap_or(0);
    J::obj()
        .set("state_x_kind_cells_decoded", J::s(format!("{}/84", cells)))
        .set("props_settings", J::s(format!("{}/225", cov.group_nonzero("props"))))
        .set("distance_slots_decoded", J::i(slots))
        .set("is_match_contexts_decoded", J::s(format!("{}/192", cov.group_nonzero("ctx_is_match"))))
        .set("length_coder_contexts_decoded", J::s(format!("{}/96", cov.group_nonzero("ctx_len"))))
        .set("len_state_x_slot_contexts_decoded", J::i(cov.group_nonzero("ctx_slot")))
        .set("highest_distance_slot", J::i(max_slot))
        .set("reach_note", J::s("distance slots above the highest listed one need more produced history than this tier builds (slot 56+ needs > 256 MiB); see DESIGN.md section 2"))
}

pub fn monitor(tier: Tier) -> Monitor {
    Monitor {
        id: "C01",
        level: "exploration",
        rule: "cases = symbol programs (thorough tier: one stream whose output exceeds 2^32 bytes; enumerated corner programs for all 84 state x kind cells; programs CONSTRUCTED by a search on the reference encoder so that the range register is exactly 2^24 - 1 / 2^24 / 2^24 + 1 right after a direct-bit halving - the threshold of the normalisation test - with all-ones direct bits; one steered program per lc/lp/pb setting; seeded random programs; wrap programs with output >> window; liblzma-encoded streams; far-distance programs) encoded by the independent reference encoder and decoded by lzma-rs (one-shot with 5 option shapes, raw decoder); non-trivial = the program contains at least one copy symbol and lzma-rs decoded >= 1 symbol (hook); distinct = by hash of (file bytes, termination style, declared dict)",
        assumptions: vec![
            "ground truth is interpret(program): plain copying in an unbounded Vec".into(),
            "the reference encoder is cross-validated against system liblzma 5.4.x at the start of every run (self-check) and per case when lc+lp<=4".into(),
            "for lc+lp>4 liblzma cannot arbitrate; reference encoder/decoder round trip + interpret only".into(),
            "match distances above 2^22 (quick) / 2^28 (thorough, one case) are not reached on the accepting path".into(),
        ],
        families: vec![
            Family { name: "corners", count: 84 * 8, priority: true, enumerated: true, run: fam_corners },
            Family { name: "all_props", count: tier.pick(225, 225 * 4), priority: true, enumerated: false, run: fam_all_props },
            Family { name: "tiny", count: tier.pick(900 * 2, 900 * 7), priority: true, enumerated: false, run: fam_tiny },
            Family { name: "cheap_tail", count: tier.pick(120, 1200), priority: true, enumerated: false, run: fam_cheap_tail },
            Family { name: "wrap", count: tier.pick(3000, 60_000), priority: false, enumerated: false, run: fam_wrap },
            Family { name: "random", count: tier.pick(30_000, 1_500_000), priority: false, enumerated: false, run: fam_random },
            Family { name: "liblzma", count: tier.pick(1500, 40_000), priority: false, enumerated: false, run: fam_liblzma },
            Family { name: "norm_boundary", count: tier.pick(24, 600), priority: false, enumerated: false, run: fam_norm_boundary },
            Family { name: "beyond_4gib", count: tier.pick(0, 1), priority: true, enumerated: false, run: fam_beyond_4gib },
            Family { name: "far", count: tier.pick(3, 10), priority: false, enumerated: false, run: fam_far },
        ],
        label: std_label_c01,
        floors,
        summarize,
    }
}

fn std_label_c01(group: &str, i: u32) -> String {
    if group == "term" {
        format!("{:?}", TERMS[i as usize])
    } else if group == "norm_boundary_after_direct_bit" {
        ["range = 2^24 - 1", "range = 2^24", "range = 2^24 + 1"][i as usize].to_string()
    } else {
        std_label(group, i)
    }
}

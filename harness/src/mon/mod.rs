pub mod c01;
pub mod common;

use crate::runner::{Monitor, Tier};

pub fn get(id: &str, tier: Tier) -> Option<Monitor> {
    match id {
        "C01" => Some(c01::monitor(tier)),
        _ => None,
    }
}

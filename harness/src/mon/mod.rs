pub mod c01;
pub mod c02;
pub mod c03;
pub mod c04;
pub mod c05;
pub mod c06;
pub mod c07;
pub mod c08;
pub mod c09;
pub mod c10;
pub mod c11;
pub mod c12;
pub mod c13;
pub mod c14;
pub mod c15;
pub mod c16;
pub mod c17;
pub mod c18;
pub mod common;
pub mod streamdrv;

use crate::runner::{Monitor, Tier};

pub fn get(id: &str, tier: Tier) -> Option<Monitor> {
    match id {
        "C01" => Some(c01::monitor(tier)),
        "C02" => Some(c02::monitor(tier)),
        "C03" => Some(c03::monitor(tier)),
        "C04" => Some(c04::monitor(tier)),
        "C05" => Some(c05::monitor(tier)),
        "C06" => Some(c06::monitor(tier)),
        "C07" => Some(c07::monitor(tier)),
        "C08" => Some(c08::monitor(tier)),
        "C09" => Some(c09::monitor(tier)),
        "C10" => Some(c10::monitor(tier)),
        "C11" => Some(c11::monitor(tier)),
        "C12" => Some(c12::monitor(tier)),
        "C13" => Some(c13::monitor(tier)),
        "C14" => Some(c14::monitor(tier)),
        "C15" => Some(c15::monitor(tier)),
        "C16" => Some(c16::monitor(tier)),
        "C17" => Some(c17::monitor(tier)),
        "C18" => Some(c18::monitor(tier)),
        _ => None,
    }
}

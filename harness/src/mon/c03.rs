//! C03 - XZ container decoding is exact for every well-formed supported file.

use super::common::*;
use crate::gen::io::{ReaderKind, SharedSink};
use crate::gen::prog::structured_data;
use crate::gen::xzgen::{gen_payload, gen_xz, XzGenParams};
use crate::liblzma as ll;
use crate::refmodel::lzma2::{self, Chunk};
use crate::refmodel::program::Sym;
use crate::refmodel::xz::{self, vli_len, BlockOpts, BlockSpec, XzSpec, XzVerdict};
use crate::runner::*;
use crate::sut::{self, Entry};
use crate::util::J;

pub fn check_file(
    tag: &str,
    file: &[u8],
    plain: &[u8],
    desc: &str,
    rk: ReaderKind,
    out: &mut CaseOut,
    cov: &mut Cov,
    ctx: &CaseCtx,
    cross: bool,
) {
    let counting = plain.len() > (64 << 20);
    let sink = if counting { SharedSink::counting_only() } else { SharedSink::varied(ctx.index ^ file.len() as u64, plain.len()) };
    let obs = sut::new_obs(u64::MAX);
    let c = sut::decode(Entry::Xz, file, &sut::default_options(), rk, &sink, &obs);
    out.evals += 1;
    let o = obs.borrow();
    cov_from_obs(cov, &o);
    cov.name("xz.block_loop_ticks", o.tick_sites[2]);
    cov.name("xz.index_record_ticks", o.tick_sites[3]);
    cov.name(&format!("reader.{}", rk.class()), 1);
    let same = if counting {
        sink.len() == plain.len() as u64 && sink.0.borrow().hash == crate::util::fnv(plain)
    } else {
        sink.bytes() == plain
    };
    ctx.say(format!("{} reader {} -> {} ({} bytes, expected {})", desc, rk.name(), c.verdict.short(), sink.len(), plain.len()));
    let good = c.verdict.is_ok() && same && c.consumed == file.len();
    if good {
        out.nontrivial.push(case_hash(&[file, rk.name().as_bytes()]));
    }
    let judge = |out: &mut CaseOut| -> bool {
        let d = ll::xz_decode(file, false);
        let okl = d.ok() && d.out == plain && d.total_in as usize == file.len();
        if !okl {
            out.harness_error(format!("{}: liblzma does not confirm a generated .xz file (ret {}) [{}]", tag, d.ret, desc));
        }
        okl
    };
    if !good {
        if file.len() < (8 << 20) && !judge(out) {
            return;
        }
        let (sig, what) = if !c.verdict.is_ok() {
            (format!("C03/{}", verdict_sig(&c.verdict)), format!("well-formed file not decoded: {}", c.verdict.short()))
        } else if !same {
            ("C03/wrong-output".to_string(), format!("wrong output: {}", if counting { "hash differs".to_string() } else { describe_mismatch(plain, &sink.bytes()) }))
        } else {
            ("C03/not-all-input-consumed".to_string(), format!("consumed {} of {} bytes", c.consumed, file.len()))
        };
        out.violate(
            sig,
            format!("{} [{}] reader {}: {}", tag, desc, rk.name(), what),
            J::obj().set("input_hex", J::s(crate::util::hex_trunc(file, 4096))).set("file", J::s(desc)),
        );
    } else if cross && file.len() < (1 << 20) {
        cov.name("liblzma_cross_checked", 1);
        judge(out);
    }
}

fn cov_spec(cov: &mut Cov, spec: &XzSpec, file_len: usize) {
    cov.inc("blocks", (spec.blocks.len() as u32).min(9));
    cov.inc("check", spec.header_flags[1] as u32);
    for b in &spec.blocks {
        cov.inc("size_fields", (b.packed_size.is_some() as u32) | ((b.unpacked_size.is_some() as u32) << 1));
        cov.inc("block_padding", b.block_padding.len() as u32);
        cov.inc("header_size_words", match b.header_len() / 4 { 0..=3 => 0, 4..=15 => 1, 16..=127 => 2, 128..=255 => 3, _ => 4 });
        cov.inc("vli_len.unpadded", vli_len(b.unpadded_size()) as u32);
        cov.inc("vli_len.uncompressed", vli_len(b.plain.len() as u64) as u32);
        cov.max("header_len", b.header_len() as u64);
    }
    // index padding
    let mut n = 1 + vli_len(spec.index_count);
    for (a, b) in &spec.index_records {
        n += vli_len(*a) + vli_len(*b);
    }
    cov.inc("index_padding", ((4 - n % 4) % 4) as u32);
    cov.max("file_len", file_len as u64);
    cov.max("block_count", spec.blocks.len() as u64);
    cov.inc("vli_len.record_count", vli_len(spec.index_count) as u32);
}

fn fam_random(ctx: &CaseCtx, cov: &mut Cov) -> CaseOut {
    let mut out = CaseOut::default();
    let mut rng = ctx.rng();
    let p = XzGenParams::standard(ctx.tier.pick(8, 12));
    let (spec, desc) = gen_xz(&mut rng, &p);
    let (file, _) = spec.serialize();
    cov_spec(cov, &spec, file.len());
    let rk = if rng.chance(1, 2) { ReaderKind::random(&mut rng) } else { ReaderKind::Slice };
    check_file("random", &file, &spec.plain(), &desc, rk, &mut out, cov, ctx, true);
    out.sample = Some(J::obj().set("file", J::s(desc)).set("file_len", J::i(file.len())).set("reader", J::s(rk.name())));
    out
}

/// every reader kind on one file (refill boundaries fall on every field)
fn fam_readers(ctx: &CaseCtx, cov: &mut Cov) -> CaseOut {
    let mut out = CaseOut::default();
    let mut rng = ctx.rng();
    let (spec, desc) = gen_xz(&mut rng, &XzGenParams::small());
    let (file, _) = spec.serialize();
    cov_spec(cov, &spec, file.len());
    let plain = spec.plain();
    for cap in 1..=ctx.tier.pick(24usize, 64) {
        check_file("readers", &file, &plain, &desc, ReaderKind::Buf(cap), &mut out, cov, ctx, false);
    }
    for k in [1usize, 2, 3, 7] {
        check_file("readers", &file, &plain, &desc, ReaderKind::Chaos { seed: rng.next(), k }, &mut out, cov, ctx, false);
    }
    out
}

/// many blocks
fn fam_many_blocks(ctx: &CaseCtx, cov: &mut Cov) -> CaseOut {
    let mut out = CaseOut::default();
    let mut rng = ctx.rng();
    // record counts of 128 and more need a two-byte integer in the index
    let nb = if ctx.index % 4 == 0 { rng.range(126, 140) as usize } else { rng.range(9, ctx.tier.pick(60, 300)) as usize };
    let check = *rng.pick(&[0u8, 1, 4]);
    let mut blocks = Vec::new();
    for _ in 0..nb {
        let (data, plain, _) = gen_payload(&mut rng, true);
        let bo = BlockOpts { with_packed: rng.chance(1, 2), with_unpacked: rng.chance(1, 2), extra_header_words: 0, dict_prop: 0 };
        blocks.push(BlockSpec::new(data, plain, check, &bo));
    }
    let spec = XzSpec::new(check, blocks);
    let (file, _) = spec.serialize();
    cov_spec(cov, &spec, file.len());
    let desc = format!("check {} blocks {}", check, nb);
    check_file("many_blocks", &file, &spec.plain(), &desc, ReaderKind::Slice, &mut out, cov, ctx, true);
    out.sample = Some(J::obj().set("file", J::s(desc)).set("file_len", J::i(file.len())));
    out
}

/// Block counts around the widths a counter or a size guard could have
/// (2^12, 2^14 = 3-byte record count, 2^16, 2^17): tiny blocks drawn from a
/// pool (incl. empty ones), every header shape.
fn fam_huge_counts(ctx: &CaseCtx, cov: &mut Cov) -> CaseOut {
    let mut out = CaseOut::default();
    let mut rng = ctx.rng();
    const NS: [usize; 8] = [65_537, 4_097, 16_384, 65_536, 131_073, 16_383, 4_096, 100_000];
    let nb = NS[(ctx.index % NS.len() as u64) as usize];
    let check = *rng.pick(&[0u8, 1, 4]);
    let mut pool = Vec::new();
    for _ in 0..24 {
        let (data, plain, _) = gen_payload(&mut rng, true);
        if plain.len() <= 64 {
            pool.push((data, plain));
        }
    }
    if pool.is_empty() {
        pool.push((vec![0u8], vec![]));
    }
    let mut blocks = Vec::with_capacity(nb);
    for _ in 0..nb {
        let (data, plain) = pool[rng.usize_below(pool.len())].clone();
        let bo = BlockOpts { with_packed: rng.chance(1, 2), with_unpacked: rng.chance(1, 2), extra_header_words: 0, dict_prop: 0 };
        blocks.push(BlockSpec::new(data, plain, check, &bo));
    }
    let spec = XzSpec::new(check, blocks);
    let (file, _) = spec.serialize();
    cov_spec(cov, &spec, file.len());
    cov.max("huge_counts.blocks_in_one_stream", nb as u64);
    let desc = format!("check {} blocks {}", check, nb);
    check_file("huge_counts", &file, &spec.plain(), &desc, ReaderKind::Slice, &mut out, cov, ctx, true);
    out.sample = Some(J::obj().set("file", J::s(desc)).set("file_len", J::i(file.len())));
    out
}

/// block sizes that need 3- and 4-byte (thorough: 5-byte) integers
fn fam_big(ctx: &CaseCtx, cov: &mut Cov) -> CaseOut {
    let mut out = CaseOut::default();
    let mut rng = ctx.rng();
    let target: usize = match (ctx.tier, ctx.index) {
        (Tier::Thorough, 0) => (1 << 28) + 17,
        (_, i) if i % 2 == 0 => (1 << 21) + rng.range(0, 5000) as usize,
        _ => (1 << 14) + rng.range(0, 100_000) as usize,
    };
    // chunks of long matches: tiny file, big block
    let props = crate::gen::l2gen::random_props_l2(&mut rng);
    let mut chunks = Vec::new();
    let mut total = 0usize;
    let mut first = true;
    while total < target {
        let want = (target - total).min(1 << 21);
        let mut prog: Vec<Sym> = Vec::new();
        let mut produced = 0usize;
        if first {
            for _ in 0..16.min(want) {
                prog.push(Sym::Lit(rng.byte()));
                produced += 1;
            }
        }
        while produced < want {
            let len = (want - produced).min(273);
            if len < 2 {
                prog.push(Sym::Lit(rng.byte()));
                produced += 1;
            } else {
                let hist = total + produced;
                let dist = crate::gen::prog::pick_dist(&mut rng, (hist as u64).min(1 << 22), 1 << 22) as u32;
                prog.push(Sym::Match { dist, len: len as u32 });
                produced += len;
            }
        }
        chunks.push(Chunk::Lzma { reset: if first { 3 } else { *rng.pick(&[0u8, 0, 1]) }, props, prog });
        first = false;
        total += want;
    }
    let w = match lzma2::write(&chunks) {
        Ok(w) => w,
        Err(e) => {
            out.harness_error(format!("lzma2 writer: {:?}", e));
            return out;
        }
    };
    let check = *rng.pick(&[0u8, 1, 4]);
    let bo = BlockOpts { with_packed: true, with_unpacked: true, extra_header_words: 0, dict_prop: xz::lzma2_dict_prop_for(w.output.len() as u64) };
    let spec = XzSpec::new(check, vec![BlockSpec::new(w.bytes, w.output, check, &bo)]);
    let (file, _) = spec.serialize();
    cov_spec(cov, &spec, file.len());
    let desc = format!("check {} one block of {} bytes in {} chunks", check, target, chunks.len());
    check_file("big", &file, &spec.plain(), &desc, ReaderKind::Slice, &mut out, cov, ctx, target < (1 << 24));
    out.sample = Some(J::obj().set("file", J::s(desc)).set("file_len", J::i(file.len())));
    out
}

/// block sizes on the boundaries of the multi-byte integer encoding (127/128,
/// 16383/16384, 2^21-1/2^21) for both index fields and both header size fields
fn fam_vli(ctx: &CaseCtx, cov: &mut Cov) -> CaseOut {
    let mut out = CaseOut::default();
    let mut rng = ctx.rng();
    let targets = [0usize, 1, 126, 127, 128, 129, 16382, 16383, 16384, 16385, (1 << 21) - 1, 1 << 21, (1 << 21) + 1];
    let t = targets[(ctx.index as usize) % targets.len()];
    let which = (ctx.index as usize / targets.len()) % 2; // 0: uncompressed size = t, 1: unpadded size = t
    let check = *rng.pick(&[0u8, 1, 4]);
    let bo = BlockOpts { with_packed: true, with_unpacked: true, extra_header_words: 0, dict_prop: 40 };
    // uncompressed chunks only: sizes are exactly controllable
    let make = |n: usize, rng: &mut crate::util::Rng| -> (Vec<u8>, Vec<u8>) {
        let plain = rng.bytes(n);
        let mut data = Vec::new();
        let mut first = true;
        for c in plain.chunks(65536) {
            data.push(if first { 1 } else { 2 });
            first = false;
            data.extend_from_slice(&((c.len() - 1) as u16).to_be_bytes());
            data.extend_from_slice(c);
        }
        data.push(0);
        (data, plain)
    };
    let mut found = None;
    if which == 0 {
        found = Some(make(t, &mut rng));
    } else {
        // search the plain length whose unpadded size is exactly t
        for n in t.saturating_sub(200)..=t {
            let (data, plain) = make(n, &mut rng);
            let b = BlockSpec::new(data.clone(), plain.clone(), check, &bo);
            if b.unpadded_size() as usize == t {
                found = Some((data, plain));
                break;
            }
        }
    }
    let (data, plain) = match found {
        Some(x) => x,
        None => return out,
    };
    let mut blocks = vec![BlockSpec::new(data, plain, check, &bo)];
    if rng.chance(1, 2) {
        let (d2, p2, _) = gen_payload(&mut rng, true);
        blocks.push(BlockSpec::new(d2, p2, check, &BlockOpts::default()));
    }
    let spec = XzSpec::new(check, blocks);
    let (file, _) = spec.serialize();
    cov_spec(cov, &spec, file.len());
    cov.name(&format!("vli_boundary.{}={}", if which == 0 { "uncompressed" } else { "unpadded" }, t), 1);
    let desc = format!("check {} block with {} size exactly {}", check, if which == 0 { "uncompressed" } else { "unpadded" }, t);
    check_file("vli", &file, &spec.plain(), &desc, ReaderKind::Slice, &mut out, cov, ctx, true);
    out.sample = Some(J::obj().set("file", J::s(desc)).set("file_len", J::i(file.len())));
    out
}

/// blocks whose LZMA2 payload has a compressed chunk on a boundary of its own size field
/// (65535 .. 2 MiB; the builder is C02's)
fn fam_chunk_sizes(ctx: &CaseCtx, cov: &mut Cov) -> CaseOut {
    let mut out = CaseOut::default();
    let mut rng = ctx.rng();
    let targets = super::c02::SIZE_FIELD_BOUNDARIES;
    let t = targets[(ctx.index as usize) % targets.len()];
    let props = crate::refmodel::lzma::Props::new(rng.below(5) as u32, 0, rng.below(5) as u32);
    let chunks = super::c02::sized_chunk_stream(&mut rng, props, t);
    let w = match crate::refmodel::lzma2::write(&chunks) {
        Ok(w) => w,
        Err(e) => {
            out.harness_error(format!("lzma2 writer: {:?}", e));
            return out;
        }
    };
    let check = *rng.pick(&[0u8, 1, 4]);
    let bo = BlockOpts { with_packed: rng.chance(1, 2), with_unpacked: rng.chance(1, 2), extra_header_words: 0, dict_prop: xz::lzma2_dict_prop_for(w.need_dict.max(1)) };
    let spec = XzSpec::new(check, vec![BlockSpec::new(w.bytes, w.output, check, &bo)]);
    let (file, _) = spec.serialize();
    cov_spec(cov, &spec, file.len());
    cov.name(&format!("lzma2_chunk_unpacking_to.{:#x}", t), 1);
    let desc = format!("check {} one block, LZMA2 chunk unpacking to exactly {:#x} bytes", check, t);
    check_file("chunk_sizes", &file, &spec.plain(), &desc, ReaderKind::from_selector(ctx.index / 14), &mut out, cov, ctx, true);
    out.sample = Some(J::obj().set("file", J::s(desc)).set("file_len", J::i(file.len())));
    out
}

/// files written by liblzma (multi-block through LZMA_FULL_FLUSH)
fn fam_liblzma(ctx: &CaseCtx, cov: &mut Cov) -> CaseOut {
    let mut out = CaseOut::default();
    let mut rng = ctx.rng();
    let n = rng.range(0, ctx.tier.pick(100_000, 2_000_000)) as usize;
    let plain = structured_data(&mut rng, n);
    let p = crate::gen::l2gen::random_props_l2(&mut rng);
    let eo = ll::EncOpts { lc: p.lc, lp: p.lp, pb: p.pb, dict_size: 1 << 16, ..Default::default() };
    let ff: Vec<usize> = (0..rng.below(6)).map(|_| rng.usize_below(n.max(1))).collect();
    let check = *rng.pick(&[0, 1, 4]);
    let file = match ll::xz_encode(&plain, &eo, check, ll::PreFilter::None, &ff) {
        Some(f) => f,
        None => {
            out.harness_error("liblzma xz_encode failed");
            return out;
        }
    };
    // our strict parser must agree that this is a supported well-formed file
    match xz::parse_strict(&file) {
        XzVerdict::Ok(o) if o == plain => {}
        _ => {
            out.harness_error("strict parser disagrees with liblzma on a liblzma-written file");
            return out;
        }
    }
    cov.name("liblzma_written_files", 1);
    cov.inc("check", check as u32);
    let desc = format!("liblzma .xz: {} plain bytes, {} full flushes, check {}", n, ff.len(), check);
    let rk = if rng.chance(1, 3) { ReaderKind::random(&mut rng) } else { ReaderKind::Slice };
    check_file("liblzma", &file, &plain, &desc, rk, &mut out, cov, ctx, false);
    out.sample = Some(J::obj().set("file", J::s(desc)).set("file_len", J::i(file.len())));
    out
}

fn label(group: &str, i: u32) -> String {
    match group {
        "blocks" => if i >= 9 { "9+".into() } else { i.to_string() },
        "check" => match i { 0 => "None".into(), 1 => "CRC32".into(), 4 => "CRC64".into(), x => format!("id{}", x) },
        "size_fields" => ["neither", "compressed only", "uncompressed only", "both"][i as usize].to_string(),
        "block_padding" | "index_padding" => format!("{} bytes", i),
        "header_size_words" => ["<=12B", "16-60B", "64-508B", "512-1020B", "1024B"][i as usize].to_string(),
        g if g.starts_with("vli_len") => format!("{}-byte", i),
        _ => std_label(group, i),
    }
}

fn floors(tier: Tier, cov: &Cov) -> Vec<String> {
    let mut m = Vec::new();
    if cov.get("blocks", 0) == 0 || cov.get("blocks", 9) == 0 {
        m.push("zero-block or 9+-block files missing".into());
    }
    if cov.group_nonzero("check") < 3 || cov.group_nonzero("size_fields") < 4 {
        m.push("check types / size-field combinations incomplete".into());
    }
    if cov.group_nonzero("block_padding") < 4 || cov.group_nonzero("index_padding") < 4 {
        m.push("padding residues incomplete".into());
    }
    let want_vli = tier.pick(4, 4);
    if cov.group_nonzero("vli_len.uncompressed") < want_vli {
        m.push(format!("only {} integer lengths for uncompressed size", cov.group_nonzero("vli_len.uncompressed")));
    }
    if cov.get("vli_len.record_count", 2) == 0 {
        m.push("no file with 128 or more blocks (two-byte record count)".into());
    }
    if cov.maxes.get("header_len").copied().unwrap_or(0) < 1024 {
        m.push("no 1024-byte block header".into());
    }
    m
}

pub fn monitor(tier: Tier) -> Monitor {
    Monitor {
        id: "C03",
        level: "exploration",
        rule: "cases = .xz files serialised from a structured description (0..300 blocks, check None/CRC32/CRC64, all four size-field combinations, header padding up to the 1024-byte maximum, payloads from the LZMA2 generator and from liblzma, block sizes needing 1-4 byte integers; thorough: one 5-byte / 256 MiB block) and files written by liblzma, decoded by xz_decompress under all reader kinds; each generated file is also decoded by liblzma; non-trivial = decoded successfully with all input consumed; distinct by hash of (file, reader)",
        assumptions: vec![
            "ground truth = concatenation of the blocks' plaintexts (interpret() via the LZMA2 writer)".into(),
            "valid files with 6-9 byte integers need blocks >= 32 GiB: not reachable (DESIGN.md section 2)".into(),
        ],
        families: vec![
            Family { name: "big", count: tier.pick(4, 12), priority: true, enumerated: false, run: fam_big },
            Family { name: "vli_boundaries", count: tier.pick(52, 520), priority: true, enumerated: false, run: fam_vli },
            Family { name: "chunk_size_boundaries", count: tier.pick(28, 280), priority: true, enumerated: false, run: fam_chunk_sizes },
            Family { name: "random", count: tier.pick(20_000, 600_000), priority: false, enumerated: false, run: fam_random },
            Family { name: "readers", count: tier.pick(300, 10_000), priority: false, enumerated: false, run: fam_readers },
            Family { name: "many_blocks", count: tier.pick(60, 1500), priority: false, enumerated: false, run: fam_many_blocks },
            Family { name: "huge_counts", count: tier.pick(2, 24), priority: false, enumerated: false, run: fam_huge_counts },
            Family { name: "liblzma", count: tier.pick(300, 6000), priority: false, enumerated: false, run: fam_liblzma },
        ],
        label,
        floors,
        summarize: no_summary,
    }
}

//! C17 - Malformed LZMA2 framing is rejected.

use super::common::*;
use crate::gen::io::{ReaderKind, SharedSink};
use crate::gen::l2gen::{gen_chunks, L2Params};
use crate::refmodel::lzma::{decode as ref_decode, DecStop, Model, Props};
use crate::refmodel::lzma2::{self, Chunk, Written};
use crate::refmodel::program::Sym;
use crate::refmodel::xz::{BlockOpts, BlockSpec, XzSpec};
use crate::runner::*;
use crate::sut::{self, Entry, Verdict};
use crate::util::{Rng, J};
use lzma_rs::decompress::raw::Lzma2Decoder;

const RULES: [&str; 9] = [
    "control byte 0x03-0x7F",
    "property byte >= 225",
    "property byte with lc+lp > 4",
    "declared compressed size too small",
    "declared uncompressed size inside a symbol (produces more)",
    "declared uncompressed size beyond the payload (produces fewer)",
    "end marker inside a chunk (produces fewer)",
    "uncompressed chunk shorter than declared",
    "input ends before the end control byte",
];

pub struct Mutant {
    pub rule: usize,
    pub bytes: Vec<u8>,
    pub chunk: usize,
    pub note: String,
}

/// Re-derive the model / history state at the start of chunk `ci` and decode
/// its (possibly altered) payload with the given declared size.
fn ref_chunk_stop(w: &Written, chunks: &[Chunk], ci: usize, payload: &[u8], declared: u64) -> DecStop {
    let mut model = Model::new(Props::new(0, 0, 0));
    let mut hist: Vec<u8> = Vec::new();
    for (i, c) in chunks.iter().enumerate() {
        match c {
            Chunk::Raw { reset_dict, data } => {
                if *reset_dict {
                    hist.clear();
                }
                if i == ci {
                    return DecStop::SizeReached;
                }
                hist.extend_from_slice(data);
            }
            Chunk::Lzma { reset, props, .. } => {
                if *reset == 3 {
                    hist.clear();
                }
                if *reset >= 2 {
                    model.reset(*props);
                } else if *reset == 1 {
                    let p = model.props;
                    model.reset(p);
                }
                let info = &w.chunks[i];
                if i == ci {
                    return ref_decode(&mut model, &mut hist, payload, Some(declared), u64::MAX).stop;
                }
                let pl = &w.bytes[info.payload_start..info.end];
                let r = ref_decode(&mut model, &mut hist, pl, Some(info.unpacked as u64), u64::MAX);
                debug_assert_eq!(r.stop, DecStop::SizeReached);
            }
        }
    }
    DecStop::SizeReached
}

fn set_unpacked(bytes: &mut [u8], start: usize, control: u8, v: usize) {
    let u = v - 1;
    bytes[start] = (control & 0xE0) | ((u >> 16) as u8 & 0x1F);
    bytes[start + 1] = (u >> 8) as u8;
    bytes[start + 2] = u as u8;
}

pub fn mutants(rng: &mut Rng, w: &Written, chunks: &[Chunk], tier: Tier, lenient: &mut u64) -> Vec<Mutant> {
    let mut ms = Vec::new();
    let per = tier.pick(6, 24);
    for (ci, info) in w.chunks.iter().enumerate() {
        let is_lzma = info.control >= 0x80;
        // 1. control byte 0x03..0x7F
        for _ in 0..per.min(4) {
            let v = rng.range(3, 0x7F) as u8;
            let mut b = w.bytes.clone();
            b[info.start] = v;
            ms.push(Mutant { rule: 0, bytes: b, chunk: ci, note: format!("control {:#04x} -> {:#04x}", info.control, v) });
        }
        if is_lzma && info.has_props {
            // 2./3. property byte
            let ppos = info.start + 5;
            for _ in 0..2 {
                let v = rng.range(225, 255) as u8;
                let mut b = w.bytes.clone();
                b[ppos] = v;
                ms.push(Mutant { rule: 1, bytes: b, chunk: ci, note: format!("props byte -> {}", v) });
            }
            for _ in 0..3 {
                let v = loop {
                    let v = rng.below(225) as u8;
                    let p = Props::from_byte(v).unwrap();
                    if p.lc + p.lp > 4 {
                        break v;
                    }
                };
                let mut b = w.bytes.clone();
                b[ppos] = v;
                ms.push(Mutant { rule: 2, bytes: b, chunk: ci, note: format!("props byte -> {} (lc+lp>4)", v) });
            }
        }
        if is_lzma {
            let payload = &w.bytes[info.payload_start..info.end];
            // 4. compressed size too small: remove d bytes from the declared size
            //    (the bytes stay in the stream, so only the declared size is wrong)
            if info.packed > 1 {
                let all = info.packed <= 48;
                for k in 0..(if all { info.packed - 1 } else { per }) {
                    let d = if all { k + 1 } else if k == 0 { 1 } else { rng.range(1, (info.packed - 1) as u64) as usize };
                    let mut b = w.bytes.clone();
                    let p = info.packed - d - 1;
                    b[info.start + 3] = (p >> 8) as u8;
                    b[info.start + 4] = p as u8;
                    ms.push(Mutant { rule: 3, bytes: b, chunk: ci, note: format!("packed {} -> {}", info.packed, info.packed - d) });
                }
            }
            // 5./6. declared uncompressed size
            // output produced before this chunk: in total, and since the last dictionary reset
            // (R20-C17: the chunk's end position computed before the reset, so a chunk that
            // under-declares by exactly that amount was accepted)
            let before_total: usize = w.chunks[..ci].iter().map(|c| c.unpacked).sum();
            let mut before_since_reset = 0usize;
            for c in &w.chunks[..ci] {
                if c.control == 1 || c.control >= 0xE0 {
                    before_since_reset = 0;
                }
                before_since_reset += c.unpacked;
            }
            for k in 0..per + 2 {
                let v: usize = match k {
                    _ if k == per => info.unpacked.saturating_sub(before_total),
                    _ if k == per + 1 => info.unpacked.saturating_sub(before_since_reset),
                    _ => match k % 3 {
                        0 if info.unpacked > 1 => rng.range(1, (info.unpacked - 1) as u64) as usize,
                        1 => info.unpacked + rng.range(1, 64) as usize,
                        _ => info.unpacked + 1,
                    },
                };
                if v == info.unpacked || v > (1 << 21) || v == 0 {
                    continue;
                }
                let stop = ref_chunk_stop(w, chunks, ci, payload, v as u64);
                let rule = match stop {
                    DecStop::Overshoot => 4,
                    DecStop::Truncated => 5,
                    DecStop::SizeReached => {
                        // lowered to a symbol boundary: the payload "produces" exactly that
                        // many bytes as far as a decoder can tell; not in the statement's list
                        *lenient += 1;
                        continue;
                    }
                    _ => continue,
                };
                let mut b = w.bytes.clone();
                set_unpacked(&mut b, info.start, info.control, v);
                ms.push(Mutant { rule, bytes: b, chunk: ci, note: format!("unpacked {} -> {} (reference: {:?})", info.unpacked, v, stop) });
            }
        } else {
            // 8. uncompressed chunk shorter than declared: only decidable when it is
            //    the last chunk (otherwise it swallows what follows)
            if ci + 1 == w.chunks.len() && info.unpacked < 65536 {
                for _ in 0..per.min(4) {
                    let v = (info.unpacked + rng.range(1, 300) as usize).min(65536);
                    let mut b = w.bytes.clone();
                    let u = v - 1;
                    b[info.start + 1] = (u >> 8) as u8;
                    b[info.start + 2] = u as u8;
                    ms.push(Mutant { rule: 7, bytes: b, chunk: ci, note: format!("raw size {} -> {}", info.unpacked, v) });
                }
            }
        }
    }
    // 9. truncation: every strict prefix (quick: sampled when long)
    let n = w.bytes.len();
    let cuts: Vec<usize> = if n <= tier.pick(300, 3000) {
        (0..n).collect()
    } else {
        let mut v: Vec<usize> = (0..tier.pick(300, 3000)).map(|_| rng.usize_below(n)).collect();
        for info in &w.chunks {
            v.extend_from_slice(&[info.start, info.start + 1, info.payload_start, info.end - 1]);
        }
        v.push(n - 1);
        v.sort();
        v.dedup();
        v
    };
    for c in cuts {
        ms.push(Mutant { rule: 8, bytes: w.bytes[..c].to_vec(), chunk: 0, note: format!("truncated to {} of {}", c, n) });
    }
    ms
}

fn run_one(api: usize, data: &[u8]) -> Verdict {
    run_one_rule(api, data, usize::MAX)
}

/// Rules whose verdict cannot depend on what the decoder object saw before (illegal control
/// byte, illegal property byte, missing bytes): for these a second call on the SAME object,
/// straight after the call that rejected the stream and without reset(), must reject again.
const STATE_INDEPENDENT: [usize; 5] = [0, 1, 2, 7, 8];

fn run_one_rule(api: usize, data: &[u8], rule: usize) -> Verdict {
    let sel = case_hash(&[data]);
    let sink = SharedSink::varied(sel >> 8, 1 << 16);
    let obs = sut::new_obs(u64::MAX);
    let rk = ReaderKind::from_selector(sel);
    match api {
        0 => sut::decode(Entry::Lzma2, data, &sut::default_options(), rk, &sink, &obs).verdict,
        1 => {
            let mut d = Lzma2Decoder::new();
            // a quarter of the raw-decoder runs use an object that already decoded a small valid
            // stream and was reset (a reset decoder is a new decoder): framing rules still apply
            if sel % 4 == 1 {
                let warm = [0xE0u8, 0, 0, 0, 5, 0x5D, 0, 0x20, 0x80, 0, 0, 0];
                let _ = sut::raw_lzma2_decompress(&mut d, &warm, ReaderKind::Slice, &SharedSink::counting_only(), &sut::new_obs(u64::MAX));
                let _ = sut::guarded(|| d.reset());
            } else if sel % 4 == 2 && STATE_INDEPENDENT.contains(&rule) {
                // error, then the same bytes again on the same object (R19-C17: a memo of the last
                // property byte taken before its validation)
                let first = sut::raw_lzma2_decompress(&mut d, data, ReaderKind::Slice, &SharedSink::counting_only(), &sut::new_obs(u64::MAX)).verdict;
                if !matches!(first, Verdict::Err(_)) {
                    return first;
                }
            } else if sel % 4 == 3 && STATE_INDEPENDENT.contains(&rule) {
                // a valid stream, no reset, then the malformed one
                let warm = [0xE0u8, 0, 0, 0, 5, 0x5D, 0, 0x20, 0x80, 0, 0, 0];
                let _ = sut::raw_lzma2_decompress(&mut d, &warm, ReaderKind::Slice, &SharedSink::counting_only(), &sut::new_obs(u64::MAX));
            }
            sut::raw_lzma2_decompress(&mut d, data, if sel % 8 >= 5 { rk } else { ReaderKind::Buf(7) }, &sink, &obs).verdict
        }
        _ => {
            // CRC-repaired .xz wrapper: no size fields, check None, index matching the
            // mutated data length, so that only the LZMA2 layer can object
            let b = BlockSpec::new(data.to_vec(), vec![], 0, &BlockOpts::default());
            let f = XzSpec::new(0, vec![b]).serialize().0;
            sut::decode(Entry::Xz, &f, &sut::default_options(), rk, &sink, &obs).verdict
        }
    }
}

const API: [&str; 3] = ["lzma2_decompress", "raw Lzma2Decoder", "xz_decompress"];

fn fam_base(ctx: &CaseCtx, cov: &mut Cov) -> CaseOut {
    let mut out = CaseOut::default();
    let mut rng = ctx.rng();
    let nch = rng.range(1, 5) as usize;
    let ms0 = *rng.pick(&[20usize, 150]);
    let mut chunks = gen_chunks(&mut rng, &L2Params::standard(nch, ms0));
    // sometimes end a chunk's program with a long match so that sizes fall inside it
    if let Some(Chunk::Lzma { prog, .. }) = chunks.last_mut() {
        prog.push(Sym::Rep { idx: 0, len: rng.range(20, 273) as u32 });
    }
    let w = match lzma2::write(&chunks) {
        Ok(w) => w,
        Err(_) => {
            // the added rep may be invalid on an empty history: fall back
            chunks = gen_chunks(&mut rng, &L2Params::standard(nch, 50));
            match lzma2::write(&chunks) {
                Ok(w) => w,
                Err(e) => {
                    out.harness_error(format!("lzma2 writer: {:?}", e));
                    return out;
                }
            }
        }
    };
    // the base stream itself must be accepted (otherwise the mutants prove nothing)
    // (a mutant that is ACCEPTED is a violation whatever happens to the base stream, so the
    // mutants are still run; the case stays inconclusive for the rejections it observes)
    if !run_one(0, &w.bytes).is_ok() {
        out.harness_error("base stream not accepted by lzma-rs (C02's business)");
    }
    let mut lenient = 0u64;
    let ms = mutants(&mut rng, &w, &chunks, ctx.tier, &mut lenient);
    cov.name("lenient.lowered_size_on_symbol_boundary_not_judged", lenient);
    for m in &ms {
        // the mutant must really be invalid for the reference reader as well
        if let Ok(_) = lzma2::read(&m.bytes, false, false) {
            // e.g. a truncation that removed nothing essential cannot happen; count and skip
            cov.name("mutants_skipped.reference_accepts", 1);
            continue;
        }
        let api = rng.usize_below(3);
        let v = run_one_rule(api, &m.bytes, m.rule);
        out.evals += 1;
        if api == 1 && STATE_INDEPENDENT.contains(&m.rule) {
            cov.name(&format!("raw_decoder_object.{}", ["fresh", "valid_then_reset", "rejected_then_same_again_no_reset", "valid_no_reset"][(case_hash(&[&m.bytes]) % 4) as usize]), 1);
        }
        cov.inc("rule", m.rule as u32);
        cov.inc("api", api as u32);
        cov.name(&format!("chunk_position.{}", m.chunk.min(4)), 1);
        out.nontrivial.push(case_hash(&[&m.bytes, &[api as u8]]));
        if ctx.verbose {
            ctx.say(format!("{} [{}] via {} -> {}", RULES[m.rule], m.note, API[api], v.short()));
        }
        match &v {
            Verdict::Err(e) => cov.name(&format!("rejected_by.{}.{}", m.rule, crate::mon::common::digits_out(e).chars().take(40).collect::<String>()), 1),
            other => out.violate(
                format!("C17/{}/{}", RULES[m.rule], if other.is_ok() { "accepted".to_string() } else { verdict_sig(other) }),
                format!(
                    "{} at chunk {} ({}), via {}: {} [chunks: {}]",
                    RULES[m.rule],
                    m.chunk,
                    m.note,
                    API[api],
                    other.short(),
                    chunks.iter().map(|c| c.short()).collect::<Vec<_>>().join(" ")
                ),
                J::obj().set("input_hex", J::s(crate::util::hex_trunc(&m.bytes, 4096))).set("mutation", J::s(m.note.as_str())),
            ),
        }
    }
    out.sample = Some(
        J::obj()
            .set("base_chunks", J::Arr(chunks.iter().map(|c| J::s(c.short())).collect()))
            .set("mutants", J::i(ms.len()))
            .set("first_mutant", J::s(ms.first().map(|m| format!("{}: {}", RULES[m.rule], m.note)).unwrap_or_default())),
    );
    out
}

/// end marker inside a compressed chunk: the chunk then produces fewer bytes
fn fam_marker(ctx: &CaseCtx, cov: &mut Cov) -> CaseOut {
    let mut out = CaseOut::default();
    let mut rng = ctx.rng();
    let props = crate::gen::l2gen::random_props_l2(&mut rng);
    let n = rng.range(0, 40) as usize;
    let mut prog: Vec<Sym> = (0..n).map(|_| Sym::Lit(rng.byte())).collect();
    // the marker's own length field varies (2..273): a decoder that charges the marker's length
    // against the chunk's declared size has its blind spot at produced + that length
    let eos_len = if ctx.index % 3 == 0 { 2 } else { [3u32, 4, 9, 10, 18, 100, 273][(ctx.index as usize / 3) % 7] };
    let _eos = crate::refmodel::lzma::with_eos_len(eos_len);
    prog.push(Sym::Eos);
    // encode by hand: Lzma2Writer refuses Eos-only emptiness, so build the chunk here
    let (payload, _t, hist) = match crate::refmodel::lzma::encode_program(&prog, props) {
        Ok(x) => x,
        Err(e) => {
            out.harness_error(format!("{:?}", e));
            return out;
        }
    };
    // the declared size exceeds what the payload produces by a small amount, by a multiple of
    // 256 / 65536 (the shortfall then lives entirely in the high size bits of the control
    // byte) or up to the 2 MiB the field can express
    let delta = match rng.below(6) {
        5 => eos_len as usize,
        0 | 1 => rng.range(1, 50) as usize,
        2 => (rng.range(1, 31) as usize) << 16,
        3 => (rng.range(1, 255) as usize) << 8,
        _ => *rng.pick(&[65535usize, 65537, (1 << 21) - 41, 1 << 20]),
    };
    let declared = (hist.len() + delta).min(1 << 21);
    cov.inc("marker_in_chunk_shortfall", match delta { d if d % 65536 == 0 => 0, d if d % 256 == 0 => 1, d if d < 50 => 2, _ => 3 });
    let mut b = vec![0xE0 | (((declared - 1) >> 16) as u8)];
    b.extend_from_slice(&(((declared - 1) & 0xFFFF) as u16).to_be_bytes());
    b.extend_from_slice(&((payload.len() - 1) as u16).to_be_bytes());
    b.push(props.byte());
    b.extend_from_slice(&payload);
    b.push(0);
    let api = rng.usize_below(3);
    let v = run_one(api, &b);
    out.evals += 1;
    cov.inc("rule", 6);
    cov.inc("api", api as u32);
    out.nontrivial.push(case_hash(&[&b, &[api as u8]]));
    if !v.is_err() {
        out.violate(
            format!("C17/{}/{}", RULES[6], if v.is_ok() { "accepted".to_string() } else { verdict_sig(&v) }),
            format!("chunk declares {} bytes but its payload ends with an end marker after {}: {} via {}", declared, hist.len(), v.short(), API[api]),
            J::obj().set("input_hex", J::s(crate::util::hex(&b))),
        );
    }
    out
}

/// every control byte 0x03-0x7F and every invalid property byte, at every chunk
/// position of one base stream (systematic, not sampled)
fn fam_systematic(ctx: &CaseCtx, cov: &mut Cov) -> CaseOut {
    let mut out = CaseOut::default();
    let mut rng = ctx.rng();
    let mut p = L2Params::standard(3, 40);
    p.w = [1, 2, 2, 2, 6, 3];
    let mut chunks = gen_chunks(&mut rng, &p);
    // every third base starts with a compressed chunk larger than 64 KiB, so that the size
    // bits of its control byte are non-zero: a control byte with bit 7 cleared but the same
    // low five bits (e.g. 0x7F for 0xFF) then still describes consistent sizes
    if ctx.index % 3 == 0 {
        let h = if ctx.index % 6 == 0 { 31 } else { rng.range(1, 31) as usize };
        let target = (h << 16) + rng.range(1, 65536) as usize;
        let mut prog: Vec<Sym> = (0..32).map(|_| Sym::Lit(rng.byte())).collect();
        let mut produced = 32usize;
        while produced < target {
            let len = (target - produced).min(273);
            if len < 2 {
                prog.push(Sym::Lit(rng.byte()));
                produced += 1;
            } else {
                prog.push(Sym::Match { dist: rng.range(1, produced.min(60000) as u64) as u32, len: len as u32 });
                produced += len;
            }
        }
        let props = crate::gen::l2gen::random_props_l2(&mut rng);
        let reset = *rng.pick(&[3u8, 3, 3]);
        chunks = vec![Chunk::Lzma { reset, props, prog }, Chunk::Lzma { reset: *rng.pick(&[0u8, 1, 2]), props, prog: vec![Sym::Lit(rng.byte()), Sym::Rep { idx: 0, len: 7 }] }];
        cov.name("systematic_base_with_large_chunk", 1);
    }
    let w = match lzma2::write(&chunks) {
        Ok(w) => w,
        Err(_) => return out,
    };
    if !run_one(0, &w.bytes).is_ok() {
        out.harness_error("base stream not accepted");
        return out;
    }
    for info in &w.chunks {
        for v in 3u8..=0x7F {
            let mut b = w.bytes.clone();
            b[info.start] = v;
            let api = (v as usize) % 3;
            let r = run_one(api, &b);
            out.evals += 1;
            cov.inc("rule", 0);
            cov.add("control_byte_value", v as u32, 1);
            if !r.is_err() {
                out.violate(format!("C17/{}/{}", RULES[0], if r.is_ok() { "accepted".to_string() } else { verdict_sig(&r) }), format!("control byte {:#04x} at chunk start {}: {}", v, info.start, r.short()), J::obj().set("input_hex", J::s(crate::util::hex_trunc(&b, 2048))));
            }
        }
        if info.control >= 0x80 && info.has_props {
            for v in 0u16..=255 {
                let v = v as u8;
                let bad = match Props::from_byte(v) {
                    None => true,
                    Some(p) => p.lc + p.lp > 4,
                };
                if !bad {
                    continue;
                }
                let mut b = w.bytes.clone();
                b[info.start + 5] = v;
                let api = (v as usize) % 3;
                let r = run_one(api, &b);
                out.evals += 1;
                cov.inc("rule", if v >= 225 { 1 } else { 2 });
                cov.add("invalid_property_byte_value", v as u32, 1);
                if !r.is_err() {
                    out.violate(format!("C17/{}/{}", RULES[if v >= 225 { 1 } else { 2 }], if r.is_ok() { "accepted".to_string() } else { verdict_sig(&r) }), format!("property byte {} at chunk start {}: {}", v, info.start, r.short()), J::obj().set("input_hex", J::s(crate::util::hex_trunc(&b, 2048))));
                }
            }
        }
    }
    out.nontrivial.push(case_hash(&[&w.bytes, b"systematic"]));
    out
}

/// streams made of uncompressed chunks only: every size field moved by +-1..3 at
/// every position; here the reference reader is exact (no range coder involved),
/// so its verdict is binding in both directions
fn fam_raw_only(ctx: &CaseCtx, cov: &mut Cov) -> CaseOut {
    let mut out = CaseOut::default();
    let mut rng = ctx.rng();
    let n = rng.range(1, 5) as usize;
    let mut chunks = Vec::new();
    for i in 0..n {
        let len = *rng.pick(&[1usize, 2, 3, 5, 17, 255, 256, 257]);
        let mut data = rng.bytes(len);
        // plant bytes that look like control bytes / terminators
        if rng.chance(1, 2) {
            let k = rng.usize_below(data.len());
            data[k] = *rng.pick(&[0u8, 1, 2]);
        }
        chunks.push(Chunk::Raw { reset_dict: i == 0 || rng.chance(1, 4), data });
    }
    let w = match lzma2::write(&chunks) {
        Ok(w) => w,
        Err(_) => return out,
    };
    for info in &w.chunks {
        for delta in [-3i32, -2, -1, 1, 2, 3] {
            let v = info.unpacked as i32 + delta;
            if v < 1 || v > 65536 {
                continue;
            }
            let mut b = w.bytes.clone();
            let u = (v - 1) as usize;
            b[info.start + 1] = (u >> 8) as u8;
            b[info.start + 2] = u as u8;
            let reference = lzma2::read(&b, false, false);
            let api = rng.usize_below(3);
            let sink = SharedSink::new();
            let obs = sut::new_obs(u64::MAX);
            let c = match api {
                0 | 2 => sut::decode(Entry::Lzma2, &b, &sut::default_options(), ReaderKind::Slice, &sink, &obs),
                _ => {
                    let mut d = Lzma2Decoder::new();
                    sut::raw_lzma2_decompress(&mut d, &b, ReaderKind::Buf(3), &sink, &obs)
                }
            };
            out.evals += 1;
            cov.inc("rule", 7);
            cov.name("raw_only_size_mutants", 1);
            out.nontrivial.push(case_hash(&[&b, &[api as u8]]));
            match (&reference, &c.verdict) {
                (Err(_), Verdict::Err(_)) => {}
                (Ok(r), Verdict::Ok) => {
                    if r.output != sink.bytes() || r.consumed != c.consumed {
                        out.violate("C17/raw-only/accepted-with-different-result", format!("size {} -> {}: reference and lzma-rs both accept but differ", info.unpacked, v), J::obj().set("input_hex", J::s(crate::util::hex_trunc(&b, 2048))));
                    }
                    cov.name("raw_only_mutants_still_well_formed", 1);
                }
                // same divergence the other way round: only the raw-chunk framing is this family's subject
                (Err(_), Verdict::Ok) if obs.borrow().chunk_class[2..].iter().sum::<u64>() > 0 => {
                    cov.name("raw_only_mutants_exposing_a_compressed_chunk.accepted_(documented leniency, judged by the other families)", 1);
                }
                (Err(e), other) => out.violate(
                    format!("C17/{}/{}", RULES[7], if other.is_ok() { "accepted".to_string() } else { verdict_sig(other) }),
                    format!("uncompressed chunk size {} -> {} (reference: {:?}): {}", info.unpacked, v, e, other.short()),
                    J::obj().set("input_hex", J::s(crate::util::hex_trunc(&b, 2048))),
                ),
                // The lenient reference skips a compressed chunk's unused packed bytes; lzma-rs resumes
                // where the range coder stopped. When a size mutation makes data bytes parse as a
                // compressed chunk (control >= 0x80) the two diverge on a stream that is malformed
                // anyway (strict reading: no properties, packed bytes not drained): rejecting it is right.
                (Ok(_), _) if obs.borrow().chunk_class[2..].iter().sum::<u64>() > 0 && lzma2::read(&b, true, true).is_err() => {
                    cov.name("raw_only_mutants_exposing_a_compressed_chunk.rejected", 1);
                }
                (Ok(_), other) => out.violate(
                    format!("C17/raw-only/rejected-well-formed/{}", verdict_sig(other)),
                    format!("uncompressed chunk size {} -> {} still gives a well-formed stream, but: {}", info.unpacked, v, other.short()),
                    J::obj().set("input_hex", J::s(crate::util::hex_trunc(&b, 2048))),
                ),
            }
        }
    }
    out
}

fn label(group: &str, i: u32) -> String {
    match group {
        "marker_in_chunk_shortfall" => ["multiple of 65536", "multiple of 256", "1..49", "other large"][i as usize].to_string(),
        "rule" => RULES[i as usize].to_string(),
        "api" => API[i as usize].to_string(),
        _ => std_label(group, i),
    }
}

fn floors(_: Tier, cov: &Cov) -> Vec<String> {
    let mut m = Vec::new();
    if cov.group_nonzero("rule") < RULES.len() {
        m.push(format!("only {}/{} framing rules exercised", cov.group_nonzero("rule"), RULES.len()));
    }
    m
}

pub fn monitor(tier: Tier) -> Monitor {
    Monitor {
        id: "C17",
        level: "fault_enumeration",
        rule: "per base stream (a valid chunk sequence accepted by lzma-rs) enumerate framing faults at every chunk position (a systematic family walks EVERY control byte 0x03-0x7F and EVERY invalid property byte; a raw-chunk-only family moves every size field by +-1..3 with the reference reader binding in both directions; every decrement of the compressed size for chunks up to 48 bytes): control bytes 0x03-0x7F, property bytes >= 225 and with lc+lp > 4, decremented compressed sizes, uncompressed sizes inside a symbol / beyond the payload (judged by the reference decoder on the mutated chunk), over-long last uncompressed chunk, end marker inside a chunk, and every truncation point (all prefixes of short streams, sampled + all structural boundaries for long ones); each mutant confirmed invalid by the reference reader; run through lzma2_decompress / raw decoder / a CRC-consistent .xz wrapper; distinct by hash of (mutant bytes, api)",
        assumptions: vec![
            "expected verdict Err by construction, confirmed per mutant by the reference LZMA2 reader".into(),
            "not judged (counted as lenient.*): a declared uncompressed size lowered onto a symbol boundary, and declared compressed sizes larger than needed - lzma-rs does not check that a chunk's bytes are all used; the statement lists 'needs more input than declared' only".into(),
        ],
        families: vec![
            Family { name: "systematic_bytes", count: tier.pick(18, 240), priority: true, enumerated: false, run: fam_systematic },
            Family { name: "raw_only_sizes", count: tier.pick(1500, 40_000), priority: false, enumerated: false, run: fam_raw_only },
            Family { name: "marker_in_chunk", count: tier.pick(2_000, 20_000), priority: true, enumerated: false, run: fam_marker },
            Family { name: "base_streams", count: tier.pick(6_000, 120_000), priority: false, enumerated: false, run: fam_base },
        ],
        label,
        floors,
        summarize: no_summary,
    }
}

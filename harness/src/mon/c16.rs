//! C16 - A failed or completed stream stays failed or completed.

use super::c05;
use super::common::*;
use super::streamdrv;
use crate::gen::io::SharedSink;
use crate::runner::*;
use crate::sut::{self, Verdict};
use crate::util::{Rng, J};
use lzma_rs::decompress::{Options, Stream};
use std::io::Write;

const SCEN: [&str; 9] = [
    "valid stream",
    "corrupt stream (fails at some symbol)",
    "memory limit too small",
    "sink fails at some write",
    "over-long input (bytes after the declared size)",
    "arbitrary C05 input",
    "error within the first payload bytes of a 5-byte-header stream (header arrives in pieces)",
    "invalid properties byte (header arrives in pieces)",
    "sink fails with an unusual error kind",
];

#[derive(Clone, Copy, Debug, PartialEq, Eq)]
enum Latch {
    Running,
    Failed,
    Complete,
}

struct Scenario {
    file: Vec<u8>,
    options: Options,
    sink: SharedSink,
    scen: usize,
    desc: String,
}

fn scenario(rng: &mut Rng, tier: Tier) -> Scenario {
    let scen = rng.usize_below(SCEN.len());
    loop {
        let vs = match super::c15::gen_valid(rng, Tier::Quick) {
            Some(v) => v,
            None => continue,
        };
        let mut options = vs.options;
        options.allow_incomplete = rng.chance(1, 4);
        let sink = SharedSink::new();
        let mut file = vs.file.clone();
        let mut desc = vs.desc.clone();
        match scen {
            0 => {}
            1 => {
                // flip a bit somewhere in the payload, or cut a piece out
                if file.len() <= vs.hdr + 6 {
                    continue;
                }
                let p = rng.range(vs.hdr as u64 + 5, file.len() as u64 - 1) as usize;
                if rng.chance(1, 2) {
                    file[p] ^= 1 << rng.below(8);
                    desc = format!("{} | bit flipped in byte {}", desc, p);
                } else {
                    let n = rng.range(1, 8) as usize;
                    let end = (p + n).min(file.len());
                    file.drain(p..end);
                    desc = format!("{} | {} bytes removed at {}", desc, end - p, p);
                }
            }
            2 => {
                options.memlimit = Some(rng.range(0, 4095).min(vs.full.len().saturating_sub(1) as u64) as usize);
                desc = format!("{} | memlimit {:?}", desc, options.memlimit);
            }
            3 => {
                let k = rng.range(1, 6);
                sink.0.borrow_mut().fail_write_at = Some(k);
                desc = format!("{} | sink fails at write #{}", desc, k);
            }
            4 => {
                if streamdrv::size_in_effect(&file, &options).is_none() {
                    continue;
                }
                let n = rng.range(1, 200) as usize;
                file.extend_from_slice(&rng.bytes(n));
                desc = format!("{} | {} extra bytes after the declared size", desc, n);
            }
            6 => {
                // UseProvided: 5-byte header, so payload bytes are staged together with the header
                if vs.mode != 2 || file.len() < vs.hdr + 14 {
                    continue;
                }
                let p = rng.range(vs.hdr as u64 + 5, vs.hdr as u64 + 12) as usize;
                file[p] ^= 1 << rng.below(8);
                if rng.chance(1, 2) {
                    file[p] = rng.byte();
                }
                desc = format!("{} | byte {} (within the first payload bytes) corrupted", desc, p);
            }
            7 => {
                file[0] = rng.range(225, 255) as u8;
                desc = format!("{} | properties byte {}", desc, file[0]);
            }
            8 => {
                let k = rng.range(1, 6);
                let mut st = sink.0.borrow_mut();
                st.fail_write_at = Some(k);
                st.fail_kind = Some(*rng.pick(&[std::io::ErrorKind::WriteZero, std::io::ErrorKind::WouldBlock, std::io::ErrorKind::UnexpectedEof, std::io::ErrorKind::InvalidData, std::io::ErrorKind::BrokenPipe]));
                desc = format!("{} | sink fails at write #{} with {:?}", desc, k, st.fail_kind.unwrap());
            }
            _ => {
                if let Some(i) = c05::gen_input(rng, tier, 6000) {
                    return Scenario { file: i.file, options: i.options, sink, scen, desc: i.desc };
                }
                continue;
            }
        }
        return Scenario { file, options, sink, scen, desc };
    }
}

fn fam_histories(ctx: &CaseCtx, cov: &mut Cov) -> CaseOut {
    let mut out = CaseOut::default();
    let mut rng = ctx.rng();
    let sc = scenario(&mut rng, ctx.tier);
    let size = streamdrv::size_in_effect(&sc.file, &sc.options);
    let file = sc.file.clone();
    let sink = sc.sink.clone();
    let sink_view = sc.sink.clone();
    let options = sc.options;
    let mut log: Vec<String> = Vec::new();
    let mut viol: Vec<(String, String)> = Vec::new();
    let mut latch = Latch::Running;
    let mut calls_after_latch = 0usize;
    let mut writes_after_fail = 0u64;
    let mut writes_after_complete = 0u64;
    let mut finish_after_fail = 0u64;
    let mut finish_after_complete = 0u64;
    let extra_calls = rng.range(1, 50) as usize;
    let small_pieces = sc.scen == 6 || sc.scen == 7 || rng.chance(1, 5);
    let mut rng2 = rng.clone();
    let r = sut::guarded(|| {
        let rng = &mut rng2;
        let mut s = Some(Stream::new_with_options(&options, sink));
        let mut pos = 0usize;
        let mut sink_at_latch = 0u64;
        let mut produced_at_complete = 0u64;
        let mut steps = 0usize;
        loop {
            steps += 1;
            if steps > 4000 {
                break;
            }
            if latch != Latch::Running {
                calls_after_latch += 1;
                if calls_after_latch > extra_calls {
                    break;
                }
            }
            let st = match s.as_mut() {
                Some(st) => st,
                None => break,
            };
            let op = if latch == Latch::Running && pos >= file.len() { 4 } else { rng.weighted(&[60, 6, 8, 6, if latch == Latch::Running { 1 } else { 8 }]) };
            match op {
                0 | 1 => {
                    // write: next piece of the input (or garbage once it is used up)
                    let piece: Vec<u8> = if op == 1 {
                        vec![]
                    } else if pos < file.len() {
                        let sizes: &[usize] = if small_pieces { &[1, 1, 2, 3, 4, 5, 7, 9, 12, 19] } else { &[1, 1, 2, 5, 13, 19, 20, 21, 64, 300, 5000] };
                        let n = (*rng.pick(sizes)).min(file.len() - pos);
                        file[pos..pos + n].to_vec()
                    } else {
                        let n = rng.range(1, 40) as usize;
                        rng.bytes(n)
                    };
                    let before_sink = sink_view.len();
                    let before = st.verif_snapshot();
                    let res = st.write(&piece);
                    let after = st.verif_snapshot();
                    let after_sink = sink_view.len();
                    log.push(format!("write({}) -> {:?}", piece.len(), res.as_ref().map_err(|e| e.to_string().chars().take(50).collect::<String>())));
                    match latch {
                        Latch::Running => match res {
                            Ok(n) => {
                                if n > piece.len() {
                                    viol.push(("write-returned-more-than-given".into(), format!("write of {} bytes returned {}", piece.len(), n)));
                                }
                                if pos < file.len() {
                                    pos += n.min(piece.len());
                                }
                                let complete = after.phase == 1 && size.map_or(false, |z| after.produced >= z);
                                if complete {
                                    latch = Latch::Complete;
                                    sink_at_latch = after_sink;
                                    produced_at_complete = after.produced;
                                } else if n == 0 && !piece.is_empty() {
                                    // io::Write: Ok(0) means "cannot accept bytes any more";
                                    // legal only once the declared size has been produced
                                    viol.push(("write-returned-0-before-completion".into(), format!("write of {} bytes returned Ok(0) although the declared size is not reached", piece.len())));
                                    pos = file.len();
                                }
                            }
                            Err(_) => {
                                latch = Latch::Failed;
                                sink_at_latch = after_sink;
                            }
                        },
                        Latch::Failed => {
                            writes_after_fail += 1;
                            if let Ok(n) = res {
                                if n > 0 {
                                    viol.push(("write-consumed-after-failure".into(), format!("after a failed write, write({}) returned Ok({})", piece.len(), n)));
                                }
                            }
                            if after_sink != sink_at_latch || after_sink != before_sink {
                                viol.push(("sink-grew-after-failure".into(), format!("sink grew from {} to {} after the stream had failed", sink_at_latch, after_sink)));
                            }
                            if after.phase != 2 {
                                viol.push(("state-restored-after-failure".into(), format!("internal phase {} after failure", after.phase)));
                            }
                        }
                        Latch::Complete => {
                            writes_after_complete += 1;
                            match res {
                                Ok(0) => {}
                                Ok(n) => viol.push(("write-consumed-after-completion".into(), format!("declared size reached, write({}) returned Ok({})", piece.len(), n))),
                                Err(e) => viol.push(("write-failed-after-completion".into(), format!("declared size reached, write({}) failed: {}", piece.len(), e))),
                            }
                            if after_sink != sink_at_latch || after.produced != produced_at_complete {
                                viol.push(("output-changed-after-completion".into(), format!("sink {} -> {}, produced {} -> {}", sink_at_latch, after_sink, produced_at_complete, after.produced)));
                            }
                        }
                    }
                    let _ = before;
                }
                2 => {
                    let res = st.flush();
                    log.push(format!("flush -> {:?}", res.as_ref().map_err(|e| e.to_string())));
                }
                3 => {
                    let some = st.get_output().is_some();
                    let _ = st.get_output_mut().is_some();
                    log.push(format!("get_output -> {}", if some { "Some" } else { "None" }));
                    if latch == Latch::Failed && some {
                        viol.push(("get_output-some-after-failure".into(), "get_output returned Some after a failed write".into()));
                    }
                }
                _ => {
                    let before_sink = sink_view.len();
                    let st = s.take().unwrap();
                    let res = st.finish();
                    let after_sink = sink_view.len();
                    log.push(format!("finish -> {:?}", res.as_ref().map(|_| ()).map_err(|e| e.to_string().chars().take(50).collect::<String>())));
                    match latch {
                        Latch::Failed => {
                            finish_after_fail += 1;
                            if res.is_ok() {
                                viol.push(("finish-ok-after-failure".into(), "finish returned Ok after a write had failed".into()));
                            }
                            if after_sink != before_sink {
                                viol.push(("sink-grew-after-failure".into(), format!("finish after failure delivered {} more bytes", after_sink - before_sink)));
                            }
                        }
                        Latch::Complete => {
                            finish_after_complete += 1;
                            // the verdict of finish here is C08's business (a match may
                            // have overshot the declared size); C16 only requires that
                            // nothing panics
                            let _ = (&res, size);
                        }
                        Latch::Running => {}
                    }
                }
            }
        }
    });
    out.evals += 1;
    cov.inc("scenario", sc.scen as u32);
    cov.inc("latch_reached", latch as u32);
    cov.name("writes_after_failure", writes_after_fail);
    cov.name("writes_after_completion", writes_after_complete);
    cov.name("finish_after_failure", finish_after_fail);
    cov.name("finish_after_completion", finish_after_complete);
    cov.max("calls_in_history", log.len() as u64);
    if latch != Latch::Running {
        out.nontrivial.push(case_hash(&[&sc.file, log.join(";").as_bytes()]));
    }
    let data = || {
        J::obj()
            .set("input_hex", J::s(crate::util::hex_trunc(&sc.file, 4096)))
            .set("scenario", J::s(sc.desc.as_str()))
            .set("options", J::s(format!("{:?}", sc.options)))
            .set("history", J::Arr(log.iter().rev().take(30).rev().map(|s| J::s(s.as_str())).collect()))
    };
    if let Err(v) = r {
        out.violate(
            format!("C16/{}", verdict_sig(&v)),
            format!("call sequence panicked: {} [{}; last calls: {}]", v.short(), sc.desc, log.iter().rev().take(5).rev().cloned().collect::<Vec<_>>().join(" ; ")),
            data(),
        );
    }
    if let Some((sig, d)) = viol.first() {
        out.violate(
            format!("C16/{}", sig),
            format!("{} [{} | {}; last calls: {}]", d, SCEN[sc.scen], sc.desc, log.iter().rev().take(6).rev().cloned().collect::<Vec<_>>().join(" ; ")),
            data(),
        );
    }
    if ctx.verbose {
        for l in &log {
            ctx.say(l);
        }
    }
    out.sample = Some(J::obj().set("scenario", J::s(SCEN[sc.scen])).set("input", J::s(sc.desc.as_str())).set("latch", J::s(format!("{:?}", latch))).set("history_tail", J::Arr(log.iter().rev().take(8).rev().map(|s| J::s(s.as_str())).collect())));
    let _ = Verdict::Ok;
    out
}

fn label(group: &str, i: u32) -> String {
    match group {
        "scenario" => SCEN[i as usize].to_string(),
        "latch_reached" => ["never (ran to the end)", "Failed", "Complete"][i as usize].to_string(),
        _ => std_label(group, i),
    }
}

fn floors(_: Tier, cov: &Cov) -> Vec<String> {
    let mut m = Vec::new();
    if cov.group_nonzero("scenario") < SCEN.len() || cov.group_nonzero("latch_reached") < 3 {
        m.push("scenarios / latch states incomplete".into());
    }
    for k in ["writes_after_failure", "writes_after_completion", "finish_after_failure", "finish_after_completion"] {
        if cov.get_named(k) < 50 {
            m.push(format!("{} observed fewer than 50 times", k));
        }
    }
    m
}

pub fn monitor(tier: Tier) -> Monitor {
    Monitor {
        id: "C16",
        level: "exploration",
        rule: "cases = random call histories over {write(next piece), write(empty), flush, get_output/get_output_mut, finish} on nine scenarios (valid, corrupt, memory limit too small, sink failing at write k, bytes after the declared size, arbitrary C05 inputs, an error within the first payload bytes of a 5-byte-header stream whose header arrives in small pieces, an invalid properties byte arriving in pieces, a sink failing with WriteZero / WouldBlock / UnexpectedEof / InvalidData / BrokenPipe), continued for up to 50 calls after the latch event (first failed write / declared size reached) with further input or garbage; an online 3-state latch checker (Running/Failed/Complete) judges every call at the API boundary (return values, shared sink length) and the snapshot hook confirms the internal phase; non-trivial = the history reached Failed or Complete; distinct by hash of (input, call log)",
        assumptions: vec![
            "the statement itself is the oracle; no model of decoding is needed".into(),
            "a write returning fewer bytes than given is accepted only at completion (snapshot hook: produced >= declared size)".into(),
        ],
        families: vec![Family { name: "histories", count: tier.pick(100_000, 3_000_000), priority: false, enumerated: false, run: fam_histories }],
        label,
        floors,
        summarize: no_summary,
    }
}

//! C06 - XZ integrity: success implies every check passed; no silent corruption.

use super::common::*;
use crate::gen::io::{ReaderKind, SharedSink};
use crate::gen::xzgen::{gen_xz, XzGenParams};
use crate::refmodel::xz::{self, Layout, XzSpec, XzVerdict};
use crate::runner::*;
use crate::sut::{self, Entry, Verdict};
use crate::util::J;

fn run_xz(data: &[u8]) -> (Verdict, Vec<u8>) {
    // neither the way the input arrives nor the way the sink accepts output is the subject here:
    // both vary with a hash of the file (mostly slice + plain sink)
    let sel = case_hash(&[data]);
    let sink = SharedSink::varied(sel >> 8, data.len() * 8);
    let obs = sut::new_obs(u64::MAX);
    let c = sut::decode(Entry::Xz, data, &sut::default_options(), ReaderKind::from_selector(sel), &sink, &obs);
    (c.verdict, sink.bytes())
}

/// candidate replacement values for an integer field of `bits` width
fn int_candidates(v: u64, bits: u32) -> Vec<(String, u64)> {
    let max = if bits >= 64 { u64::MAX } else { (1u64 << bits) - 1 };
    let mut c: Vec<(String, u64)> = vec![
        ("plus1".into(), v.wrapping_add(1) & max),
        ("minus1".into(), v.wrapping_sub(1) & max),
        ("zero".into(), 0),
        ("max".into(), max),
        ("plus4".into(), v.wrapping_add(4) & max),
        ("times4".into(), v.wrapping_mul(4) & max),
        ("div4".into(), v / 4),
    ];
    for k in 0..bits {
        c.push((format!("bit{}", k), v ^ (1u64 << k)));
    }
    c.retain(|(_, x)| *x != v);
    c
}

pub struct Mutant {
    pub field: &'static str,
    pub class: String,
    pub spec: XzSpec,
}

pub fn refit_header(b: &mut xz::BlockSpec) {
    refit_header_with(b, 0)
}

/// `keep_extra`: surplus padding in bytes (a multiple of four); the header stays within 1024 bytes
pub fn refit_header_with(b: &mut xz::BlockSpec, keep_extra: usize) {
    // keep the header self-consistent after a size field changed its length
    let mut body = 2;
    if let Some(v) = b.packed_size {
        body += xz::vli_len(v);
    }
    if let Some(v) = b.unpacked_size {
        body += xz::vli_len(v);
    }
    for f in &b.filters {
        body += xz::vli_len(f.id) + xz::vli_len(f.props.len() as u64) + f.props.len();
    }
    let total = body + 4;
    let mut pad = (4 - total % 4) % 4 + keep_extra;
    while body + pad + 4 > 1024 {
        pad -= 4;
    }
    b.header_padding = vec![0; pad];
    b.header_size_byte = ((body + pad + 4) / 4 - 1) as u8;
}

pub fn field_mutants(spec: &XzSpec) -> Vec<Mutant> {
    let mut ms: Vec<Mutant> = Vec::new();
    let mut push = |field: &'static str, class: String, s: XzSpec| ms.push(Mutant { field, class, spec: s });
    // stream header
    for i in 0..6 {
        for (cl, v) in [("xor01", spec.header_magic[i] ^ 1), ("xor80", spec.header_magic[i] ^ 0x80), ("zero", 0u8), ("ff", 0xFF)] {
            if v != spec.header_magic[i] {
                let mut s = spec.clone();
                s.header_magic[i] = v;
                push("header_magic", format!("byte{}:{}", i, cl), s);
            }
        }
    }
    for v in 0..=255u8 {
        if v != spec.header_flags[0] && (v < 4 || v.count_ones() == 1 || v == 0xFF) {
            let mut s = spec.clone();
            s.header_flags[0] = v;
            push("header_flags", format!("byte0={:#04x}", v), s);
        }
    }
    for v in 0..=255u8 {
        if v != spec.header_flags[1] && (v < 16 || v.count_ones() == 1 || v == 0xFF) {
            let mut s = spec.clone();
            s.header_flags[1] = v;
            push("header_flags", format!("byte1={:#04x}(footer keeps {:#04x})", v, spec.footer_flags[1]), s);
        }
    }
    {
        let (bytes, _) = spec.serialize();
        let good = u32::from_le_bytes([bytes[8], bytes[9], bytes[10], bytes[11]]);
        for (cl, v) in int_candidates(good as u64, 32) {
            let mut s = spec.clone();
            s.header_crc = Some(v as u32);
            push("header_crc", cl, s);
        }
    }
    // blocks
    for bi in 0..spec.blocks.len() {
        let b = &spec.blocks[bi];
        for (cl, v) in int_candidates(b.header_size_byte as u64, 8) {
            let mut s = spec.clone();
            s.blocks[bi].header_size_byte = v as u8;
            push("block_header_size", cl, s);
        }
        if let Some(p) = b.packed_size {
            for (cl, v) in int_candidates(p, 63) {
                let mut s = spec.clone();
                s.blocks[bi].packed_size = Some(v);
                refit_header(&mut s.blocks[bi]);
                // the index must describe the file as it now is
                if bi < s.index_records.len() {
                    s.index_records[bi].0 = s.blocks[bi].unpadded_size();
                }
                push("block_packed_size", cl, s);
            }
        }
        if let Some(u) = b.unpacked_size {
            for (cl, v) in int_candidates(u, 63) {
                let mut s = spec.clone();
                s.blocks[bi].unpacked_size = Some(v);
                refit_header(&mut s.blocks[bi]);
                if bi < s.index_records.len() {
                    s.index_records[bi].0 = s.blocks[bi].unpadded_size();
                }
                push("block_unpacked_size", cl, s);
            }
        }
        // every padding byte of the header, however large the header is (up to 1024 bytes): the
        // first four with three values each, the others with one bit that depends on the position
        for i in 0..b.header_padding.len() {
            let vals: Vec<u8> = if i < 4 { vec![1u8, 0x80, 0xFF] } else { vec![1u8 << (i % 8)] };
            for v in vals {
                let mut s = spec.clone();
                s.blocks[bi].header_padding[i] = v;
                let pos = match i {
                    0..=3 => format!("byte{}", i),
                    4..=31 => "byte4..31".to_string(),
                    32..=255 => "byte32..255".to_string(),
                    _ => "byte256..".to_string(),
                };
                push("block_header_padding", format!("{}={:#04x}", pos, v), s);
            }
        }
        {
            let (bytes, l) = spec.serialize();
            let f = l.find("block_header_crc", Some(bi)).unwrap();
            let good = u32::from_le_bytes([bytes[f.start], bytes[f.start + 1], bytes[f.start + 2], bytes[f.start + 3]]);
            for (cl, v) in int_candidates(good as u64, 32) {
                let mut s = spec.clone();
                s.blocks[bi].header_crc = Some(v as u32);
                push("block_header_crc", cl, s);
            }
        }
        for i in 0..b.block_padding.len() {
            for v in [1u8, 0x80, 0xFF] {
                let mut s = spec.clone();
                s.blocks[bi].block_padding[i] = v;
                push("block_padding", format!("byte{}={:#04x}", i, v), s);
            }
        }
        for i in 0..b.check.len() {
            for k in 0..8 {
                let mut s = spec.clone();
                s.blocks[bi].check[i] ^= 1 << k;
                push("block_check", format!("byte{}:bit{}", i, k), s);
            }
        }
        if !b.check.is_empty() {
            // check of different data: the right digest of the wrong bytes
            let mut other = b.plain.clone();
            other.push(0);
            let mut s = spec.clone();
            s.blocks[bi].check = xz::compute_check(spec.header_flags[1], &other);
            push("block_check", "digest-of-other-data".into(), s);
        }
    }
    // index
    for v in [1u8, 2, 0x80, 0xFF] {
        let mut s = spec.clone();
        s.index_indicator = v;
        push("index_indicator", format!("={:#04x}", v), s);
    }
    for (cl, v) in int_candidates(spec.index_count, 63) {
        let mut s = spec.clone();
        s.index_count = v;
        push("index_count", cl, s);
    }
    for ri in 0..spec.index_records.len() {
        for (cl, v) in int_candidates(spec.index_records[ri].0, 63) {
            let mut s = spec.clone();
            s.index_records[ri].0 = v;
            push("index_unpadded", cl, s);
        }
        for (cl, v) in int_candidates(spec.index_records[ri].1, 63) {
            let mut s = spec.clone();
            s.index_records[ri].1 = v;
            push("index_unpacked", cl, s);
        }
    }
    // structural index faults: records removed / added, with the count field
    // following (a consistent-looking index that disagrees with the blocks)
    for r in 1..=spec.index_records.len() {
        let mut s = spec.clone();
        let keep = spec.index_records.len() - r;
        s.index_records.truncate(keep);
        s.index_count = keep as u64;
        push("index_records", format!("last-{}-dropped,count-follows", r.min(3)), s);
        let mut s = spec.clone();
        s.index_records.drain(0..r);
        s.index_count = keep as u64;
        push("index_records", format!("first-{}-dropped,count-follows", r.min(3)), s);
    }
    {
        let extra = spec.index_records.last().copied().unwrap_or((12, 0));
        let mut s = spec.clone();
        s.index_records.push(extra);
        s.index_count = s.index_records.len() as u64;
        push("index_records", "one-added,count-follows".into(), s);
        let mut s = spec.clone();
        s.index_records.push(extra);
        push("index_records", "one-added,count-unchanged".into(), s);
    }
    if spec.index_records.len() >= 2 && spec.index_records[0] != spec.index_records[1] {
        let mut s = spec.clone();
        s.index_records.swap(0, 1);
        push("index_records", "swapped".into(), s);
    }
    {
        let (_, l) = spec.serialize();
        let plen = l.find("index_padding", None).map(|f| f.end - f.start).unwrap_or(0);
        for i in 0..plen {
            for v in [1u8, 0x80, 0xFF] {
                let mut p = vec![0u8; plen];
                p[i] = v;
                let mut s = spec.clone();
                s.index_padding = Some(p);
                push("index_padding", format!("byte{}={:#04x}", i, v), s);
            }
        }
        // four extra zero bytes (padding must be 0-3 bytes)
        let mut s = spec.clone();
        s.index_padding = Some(vec![0u8; plen + 4]);
        push("index_padding", "four-extra-zero-bytes".into(), s);
    }
    {
        let (bytes, l) = spec.serialize();
        let f = l.find("index_crc", None).unwrap();
        let good = u32::from_le_bytes([bytes[f.start], bytes[f.start + 1], bytes[f.start + 2], bytes[f.start + 3]]);
        for (cl, v) in int_candidates(good as u64, 32) {
            let mut s = spec.clone();
            s.index_crc = Some(v as u32);
            push("index_crc", cl, s);
        }
        // footer
        let f = l.find("footer_crc", None).unwrap();
        let good = u32::from_le_bytes([bytes[f.start], bytes[f.start + 1], bytes[f.start + 2], bytes[f.start + 3]]);
        for (cl, v) in int_candidates(good as u64, 32) {
            let mut s = spec.clone();
            s.footer_crc = Some(v as u32);
            push("footer_crc", cl, s);
        }
        let f = l.find("footer_backward_size", None).unwrap();
        let good = u32::from_le_bytes([bytes[f.start], bytes[f.start + 1], bytes[f.start + 2], bytes[f.start + 3]]);
        let mut cands = int_candidates(good as u64, 32);
        // wrap candidates: values congruent to the true one modulo 2^30 make
        // (v + 1) * 4 agree modulo 2^32
        cands.push(("plus2^30".into(), (good as u64 + (1 << 30)) & 0xFFFF_FFFF));
        cands.push(("plus3*2^30".into(), (good as u64 + (3 << 30)) & 0xFFFF_FFFF));
        for (cl, v) in cands {
            let mut s = spec.clone();
            s.backward_size = Some(v as u32);
            push("footer_backward_size", cl, s);
        }
    }
    for v in 0..=255u8 {
        if v != spec.footer_flags[1] && (v < 16 || v.count_ones() == 1) {
            let mut s = spec.clone();
            s.footer_flags[1] = v;
            push("footer_flags", format!("byte1={:#04x}(header has {:#04x})", v, spec.header_flags[1]), s);
        }
    }
    for v in [1u8, 0x80] {
        let mut s = spec.clone();
        s.footer_flags[0] = v;
        push("footer_flags", format!("byte0={:#04x}", v), s);
    }
    for i in 0..2 {
        for (cl, v) in [("xor01", spec.footer_magic[i] ^ 1), ("xor80", spec.footer_magic[i] ^ 0x80), ("zero", 0u8)] {
            let mut s = spec.clone();
            s.footer_magic[i] = v;
            push("footer_magic", format!("byte{}:{}", i, cl), s);
        }
    }
    ms
}

fn in_payload(l: &Layout, off: usize) -> bool {
    l.field_at(off).map(|f| f.name == "block_data").unwrap_or(false)
}

fn fam_files(ctx: &CaseCtx, cov: &mut Cov) -> CaseOut {
    let mut out = CaseOut::default();
    let mut rng = ctx.rng();
    let mut params = XzGenParams::small();
    if ctx.index % 3 != 0 {
        params.checks = vec![1, 4];
    }
    // every tenth base file has up to 8 blocks (faults then also hit later blocks)
    if ctx.index % 10 == 9 {
        params.max_blocks = 8;
    }
    // every seventh base file may carry block headers far larger than minimal (legal up to 1024
    // bytes, all of the surplus is padding that must be zero)
    if ctx.index % 7 == 3 {
        params.big_headers = true;
    }
    let (mut spec, mut desc) = gen_xz(&mut rng, &params);
    if ctx.index % 7 == 3 && !spec.blocks.is_empty() {
        // ... and one block of it certainly does: 32 to 1000 bytes of padding
        let bi = (ctx.index as usize / 7) % spec.blocks.len();
        let words = [8usize, 9, 16, 17, 40, 100, 250][(ctx.index as usize / 7) % 7];
        refit_header_with(&mut spec.blocks[bi], 4 * words);
        spec.index_records[bi].0 = spec.blocks[bi].unpadded_size();
        desc = format!("{} [block {} header padded by {} words]", desc, bi, words);
    }
    let (file, layout) = spec.serialize();
    let plain = spec.plain();
    let check = spec.header_flags[1];
    let protected = check == 1 || check == 4;
    // base must be accepted with the right output
    let (v0, o0) = run_xz(&file);
    if !(v0.is_ok() && o0 == plain) {
        out.harness_error(format!("base file not decoded correctly ({}); that is C03's business [{}]", v0.short(), desc));
        return out;
    }
    ctx.say(format!("base file {} bytes: {}", file.len(), desc));
    let mk_data = |bytes: &[u8], what: &str| {
        J::obj()
            .set("input_hex", J::s(crate::util::hex_trunc(bytes, 4096)))
            .set("base_file", J::s(desc.as_str()))
            .set("mutation", J::s(what))
    };

    // (1) field faults with enclosing CRCs recomputed
    for m in field_mutants(&spec) {
        let (bytes, _) = m.spec.serialize();
        if bytes == file {
            continue;
        }
        // the mutant must really be invalid (guards against a mutator bug)
        match xz::parse_strict(&bytes) {
            XzVerdict::Ok(_) => {
                cov.name("field_mutants_skipped.still_valid", 1);
                continue;
            }
            _ => {}
        }
        let (v, o) = run_xz(&bytes);
        out.evals += 1;
        cov.name(&format!("field.{}", m.field), 1);
        if m.field == "block_header_padding" {
            cov.name(&format!("header_padding_at.{}", m.class.split('=').next().unwrap_or("?")), 1);
        }
        out.nontrivial.push(case_hash(&[&bytes]));
        if ctx.verbose && !v.is_err() {
            ctx.say(format!("field {} {} -> {}", m.field, m.class, v.short()));
        }
        match &v {
            Verdict::Err(e) => cov.name(&format!("field.{}.rejected_by.{}", m.field, digits_out(e).chars().take(36).collect::<String>()), 1),
            Verdict::Ok => out.violate(
                format!("C06/{}/{}/accepted", m.field, m.class),
                format!(
                    "field {} replaced ({}), all enclosing CRCs recomputed: accepted ({} output bytes, original {}) [base: {}]",
                    m.field, m.class, o.len(), plain.len(), desc
                ),
                mk_data(&bytes, &format!("{} {}", m.field, m.class)),
            ),
            other => out.violate(
                format!("C06/{}/{}/{}", m.field, m.class, verdict_sig(other)),
                format!("field {} replaced ({}): {} [base: {}]", m.field, m.class, other.short(), desc),
                mk_data(&bytes, &format!("{} {}", m.field, m.class)),
            ),
        }
    }

    // (1b) pairs of field faults (two fields wrong at once, possibly compensating)
    {
        let firsts = field_mutants(&spec);
        let n_pairs = ctx.tier.pick(60, 400);
        for _ in 0..n_pairs {
            if firsts.is_empty() {
                break;
            }
            let a = &firsts[rng.usize_below(firsts.len())];
            let seconds = field_mutants(&a.spec);
            let cands: Vec<&Mutant> = seconds.iter().filter(|m| m.field != a.field).collect();
            if cands.is_empty() {
                continue;
            }
            let b = cands[rng.usize_below(cands.len())];
            let (bytes, _) = b.spec.serialize();
            if bytes == file {
                continue;
            }
            match xz::parse_strict(&bytes) {
                XzVerdict::Ok(_) => {
                    cov.name("field_pairs_skipped.still_valid", 1);
                    continue;
                }
                // two consistent edits can yield a well-formed file that merely uses an
                // unsupported feature (e.g. header and footer both say SHA-256): that is
                // C18's subject, not an integrity disagreement
                XzVerdict::Unsupported(_) => {
                    cov.name("field_pairs_skipped.well_formed_but_unsupported", 1);
                    continue;
                }
                XzVerdict::Invalid(_) => {}
            }
            let (v, o) = run_xz(&bytes);
            out.evals += 1;
            cov.name("field_pairs", 1);
            out.nontrivial.push(case_hash(&[&bytes]));
            match &v {
                Verdict::Err(_) => {}
                Verdict::Ok => out.violate(
                    format!("C06/pair/{}+{}/accepted", a.field, b.field),
                    format!(
                        "fields {} ({}) and {} ({}) replaced together, enclosing CRCs recomputed: accepted ({} output bytes, original {}) [base: {}]",
                        a.field, a.class, b.field, b.class, o.len(), plain.len(), desc
                    ),
                    mk_data(&bytes, &format!("{} {} + {} {}", a.field, a.class, b.field, b.class)),
                ),
                other => out.violate(
                    format!("C06/pair/{}+{}/{}", a.field, b.field, verdict_sig(other)),
                    format!("fields {} ({}) and {} ({}) replaced together: {} [base: {}]", a.field, a.class, b.field, b.class, other.short(), desc),
                    mk_data(&bytes, &format!("{} {} + {} {}", a.field, a.class, b.field, b.class)),
                ),
            }
        }
    }

    // (2) every single-bit flip
    let mut buf = file.clone();
    for off in 0..file.len() {
        for bit in 0..8 {
            buf[off] ^= 1 << bit;
            let (v, o) = run_xz(&buf);
            out.evals += 1;
            let inside = in_payload(&layout, off);
            let fname = layout.field_at(off).map(|f| f.name).unwrap_or("?");
            cov.name(&format!("bitflip.in.{}", fname), 1);
            match &v {
                Verdict::Err(_) => {}
                Verdict::Ok => {
                    if o != plain && protected {
                        out.violate(
                            format!("C06/bitflip/{}/silent-corruption", fname),
                            format!(
                                "bit {} of byte {} ({}) flipped in a check-{} file: success with different output: {} [base: {}]",
                                bit, off, fname, check, describe_mismatch(&plain, &o), desc
                            ),
                            mk_data(&buf, &format!("flip byte {} bit {}", off, bit)),
                        );
                    } else if !inside {
                        out.violate(
                            format!("C06/bitflip/{}/accepted", fname),
                            format!(
                                "bit {} of byte {} ({}) flipped: accepted although the bit lies outside the LZMA2 payload [base: {}]",
                                bit, off, fname, desc
                            ),
                            mk_data(&buf, &format!("flip byte {} bit {}", off, bit)),
                        );
                    } else if o == plain {
                        cov.name("bitflip.benign_payload_flip_same_output", 1);
                    } else {
                        cov.name("bitflip.unprotected_payload_flip_changed_output(check None)", 1);
                    }
                }
                other => out.violate(
                    format!("C06/bitflip/{}/{}", fname, verdict_sig(other)),
                    format!("bit {} of byte {} ({}) flipped: {} [base: {}]", bit, off, fname, other.short(), desc),
                    mk_data(&buf, &format!("flip byte {} bit {}", off, bit)),
                ),
            }
            buf[off] ^= 1 << bit;
        }
    }
    out.nontrivial.push(case_hash(&[&file, b"bitflips"]));

    // (3) every truncation
    for n in 0..file.len() {
        let (v, _) = run_xz(&file[..n]);
        out.evals += 1;
        cov.name("truncations", 1);
        if !v.is_err() {
            out.violate(
                format!("C06/truncation/{}", if v.is_ok() { "accepted".to_string() } else { verdict_sig(&v) }),
                format!("file truncated to {} of {} bytes: {} [base: {}]", n, file.len(), v.short(), desc),
                mk_data(&file[..n], &format!("truncate to {}", n)),
            );
        }
    }
    out.nontrivial.push(case_hash(&[&file, b"truncations"]));
    cov.inc("base.check", check as u32);
    cov.inc("base.blocks", spec.blocks.len() as u32);
    cov.max("base_file_len", file.len() as u64);
    out.sample = Some(J::obj().set("base_file", J::s(desc)).set("file_len", J::i(file.len())).set("file_hex", J::s(crate::util::hex_trunc(&file, 80))));
    out
}

/// Files with very many blocks; faults in index records far from the start,
/// single and SUM-PRESERVING (compensating +k/-k on two records, two records
/// swapped, all records rotated): a checker that aggregates or samples the
/// per-block comparison would let these through.
fn fam_many_blocks_index(ctx: &CaseCtx, cov: &mut Cov) -> CaseOut {
    let mut out = CaseOut::default();
    let mut rng = ctx.rng();
    let nb: usize = match ctx.index % 8 {
        0 => 4_097 + rng.below(40) as usize,
        1 => 258 + rng.below(100) as usize,
        2 => 4_096,
        7 if ctx.tier == Tier::Thorough => 65_537 + rng.below(500) as usize,
        _ => 1_000 + rng.below(7_000) as usize,
    };
    let check = *rng.pick(&[1u8, 4, 0]);
    let mut pool = Vec::new();
    for _ in 0..40 {
        let (data, plain, _) = crate::gen::xzgen::gen_payload(&mut rng, true);
        if plain.len() <= 48 {
            pool.push((data, plain));
        }
    }
    if pool.len() < 2 {
        pool.push((vec![0u8], vec![]));
        pool.push((vec![1, 0, 0, 0x41, 0], vec![0x41]));
    }
    let mut blocks = Vec::with_capacity(nb);
    for _ in 0..nb {
        let (data, plain) = pool[rng.usize_below(pool.len())].clone();
        let bo = xz::BlockOpts { with_packed: rng.chance(1, 2), with_unpacked: rng.chance(1, 2), extra_header_words: 0, dict_prop: 0 };
        blocks.push(xz::BlockSpec::new(data, plain, check, &bo));
    }
    let spec = XzSpec::new(check, blocks);
    let (file, _) = spec.serialize();
    let plain = spec.plain();
    let desc = format!("{} blocks, check {}", nb, check);
    let (v0, o0) = run_xz(&file);
    if !(v0.is_ok() && o0 == plain) {
        out.harness_error(format!("base file not decoded correctly ({}); that is C03's business [{}]", v0.short(), desc));
        return out;
    }
    cov.max("many_blocks.blocks_in_base_file", nb as u64);
    let mut ords: Vec<usize> = vec![0, 1, 2, nb / 2, 255, 256, 257, 4095, 4096, 4097, 65_535, 65_536, 65_537, nb - 2, nb - 1];
    for _ in 0..4 {
        ords.push(rng.usize_below(nb));
    }
    ords.retain(|&o| o < nb);
    ords.sort_unstable();
    ords.dedup();
    let mut mutants: Vec<(String, XzSpec)> = Vec::new();
    let get = |s: &XzSpec, o: usize, f: usize| if f == 0 { s.index_records[o].0 } else { s.index_records[o].1 };
    let set = |s: &mut XzSpec, o: usize, f: usize, v: u64| {
        if f == 0 {
            s.index_records[o].0 = v
        } else {
            s.index_records[o].1 = v
        }
    };
    let fname = ["unpadded size", "uncompressed size"];
    for &o in &ords {
        for f in 0..2 {
            let v = get(&spec, o, f);
            for nv in [v + 1, v.wrapping_sub(1), v + 4, v * 2 + 1] {
                if nv == v || nv > (1 << 62) || (f == 0 && nv < 5) {
                    continue;
                }
                let mut s = spec.clone();
                set(&mut s, o, f, nv);
                mutants.push((format!("record {} {} {} -> {}", o, fname[f], v, nv), s));
            }
        }
    }
    let n_pairs = ctx.tier.pick(60, 300);
    for _ in 0..n_pairs {
        let (i, j) = (ords[rng.usize_below(ords.len())], ords[rng.usize_below(ords.len())]);
        if i == j {
            continue;
        }
        let f = rng.usize_below(2);
        match rng.below(3) {
            0 => {
                let k = *rng.pick(&[1u64, 4, 8]);
                let (a, b) = (get(&spec, i, f), get(&spec, j, f));
                if b <= k + 5 {
                    continue;
                }
                let mut s = spec.clone();
                set(&mut s, i, f, a + k);
                set(&mut s, j, f, b - k);
                mutants.push((format!("records {} and {}: {} +{} / -{} (sum unchanged)", i, j, fname[f], k, k), s));
            }
            1 => {
                if spec.index_records[i] == spec.index_records[j] {
                    continue;
                }
                let mut s = spec.clone();
                s.index_records.swap(i, j);
                mutants.push((format!("records {} and {} swapped", i, j), s));
            }
            _ => {
                let mut s = spec.clone();
                s.index_records.rotate_left(1 + rng.usize_below(3));
                if s.index_records == spec.index_records {
                    continue;
                }
                mutants.push(("all records rotated".to_string(), s));
            }
        }
    }
    for (what, m) in mutants {
        let (bytes, _) = m.serialize();
        if bytes == file {
            continue;
        }
        if let XzVerdict::Ok(_) = xz::parse_strict(&bytes) {
            cov.name("field_mutants_skipped.still_valid", 1);
            continue;
        }
        let (v, o) = run_xz(&bytes);
        out.evals += 1;
        cov.name("field.index_record_in_many_block_file", 1);
        out.nontrivial.push(case_hash(&[what.as_bytes(), &(nb as u64).to_le_bytes(), &bytes[bytes.len().saturating_sub(64)..]]));
        match &v {
            Verdict::Err(_) => {}
            Verdict::Ok => out.violate(
                "C06/index_record(many blocks)/accepted".to_string(),
                format!("{} (index CRC32 recomputed): accepted ({} output bytes, original {}) [base: {}]", what, o.len(), plain.len(), desc),
                J::obj().set("input_hex", J::s(crate::util::hex_trunc(&bytes, 4096))).set("base_file", J::s(desc.as_str())).set("mutation", J::s(what.as_str())),
            ),
            other => out.violate(
                format!("C06/index_record(many blocks)/{}", verdict_sig(other)),
                format!("{}: {} [base: {}]", what, other.short(), desc),
                J::obj().set("input_hex", J::s(crate::util::hex_trunc(&bytes, 4096))).set("mutation", J::s(what.as_str())),
            ),
        }
    }
    out.sample = Some(J::obj().set("base_file", J::s(desc)));
    out
}

fn label(group: &str, i: u32) -> String {
    match group {
        "base.check" => match i { 0 => "None".into(), 1 => "CRC32".into(), 4 => "CRC64".into(), x => x.to_string() },
        _ => std_label(group, i),
    }
}

const FIELDS: [&str; 21] = [
    "index_records",
    "header_magic", "header_flags", "header_crc", "block_header_size", "block_packed_size", "block_unpacked_size",
    "block_header_padding", "block_header_crc", "block_padding", "block_check", "index_indicator", "index_count",
    "index_unpadded", "index_unpacked", "index_padding", "index_crc", "footer_crc", "footer_backward_size",
    "footer_flags", "footer_magic",
];

fn floors(_: Tier, cov: &Cov) -> Vec<String> {
    let mut m = Vec::new();
    for f in FIELDS {
        if cov.get_named(&format!("field.{}", f)) == 0 {
            m.push(format!("field {} never mutated", f));
        }
    }
    if cov.get_named("truncations") == 0 {
        m.push("no truncations".into());
    }
    for pos in ["byte0", "byte4..31", "byte32..255", "byte256.."] {
        if cov.get_named(&format!("header_padding_at.{}", pos)) == 0 {
            m.push(format!("no header padding fault at {}", pos));
        }
    }
    m
}

pub fn monitor(tier: Tier) -> Monitor {
    Monitor {
        id: "C06",
        level: "fault_enumeration",
        rule: "per base file (valid, 0-3 blocks, check None/CRC32/CRC64, size fields on/off, decoded correctly first): (1) every integrity/size field of the structured description replaced by v+-1, 0, max, v^(1<<k) for every k, v*4, v/4, wrap candidates, with all enclosing CRCs recomputed and each mutant confirmed invalid by the strict parser -> must be Err; (1b) sampled PAIRS of such field faults on different fields (possibly compensating) -> must be Err; (2) every single-bit flip of the file -> Err if outside the LZMA2 payload, never Ok with different output for CRC32/CRC64 files; (3) every truncation -> Err; run in overflow-checked and in release arithmetic; evaluations = decodes of mutants; distinct by hash of the mutant bytes (field faults) plus two per base file for the exhaustive flip / truncation sweeps",
        assumptions: vec![
            "expected verdicts by construction; the strict parser (self-checked against liblzma) confirms each field mutant is invalid".into(),
            "check None gives no protection for payload bytes: only structural fields are asserted there".into(),
            "a payload bit flip that leaves the decoded bytes identical (e.g. the ignored first range-coder byte) is not a violation".into(),
        ],
        families: vec![Family { name: "files", count: tier.pick(1200, 40_000), priority: false, enumerated: false, run: fam_files },
            Family { name: "many_blocks_index", count: tier.pick(3, 32), priority: false, enumerated: false, run: fam_many_blocks_index },
        ],
        label,
        floors,
        summarize: no_summary,
    }
}

//! Driver for `lzma_rs::decompress::Stream`: feeds an input under a chunking,
//! records the call history at the API boundary plus internal snapshots.

use crate::gen::io::SharedSink;
use crate::sut::{self, ObsRef, Verdict};
use lzma_rs::decompress::{Options, Stream};
use lzma_rs::verif::StreamSnapshot;
use std::io::Write;

#[derive(Clone, Debug, Default)]
pub struct DriveOpts {
    /// call flush() after every piece
    pub flush_between: bool,
    /// interleave empty writes
    pub empty_writes: bool,
    /// use write_all for each piece instead of a write loop
    pub use_write_all: bool,
    /// do not call finish (for prefix observations)
    pub skip_finish: bool,
}

#[derive(Clone, Debug)]
pub struct StreamRun {
    /// overall: Ok iff every write succeeded and finish succeeded
    pub verdict: Verdict,
    /// index of the piece whose write failed
    pub failed_piece: Option<usize>,
    pub finish_called: bool,
    /// sink contents at the end
    pub out: Vec<u8>,
    /// snapshot after each piece: (input bytes accepted so far, snapshot, sink length)
    pub snaps: Vec<(usize, StreamSnapshot, usize)>,
    /// a write returned Ok(0) for a non-empty piece while the declared size was not reached
    pub stalled: bool,
    /// input bytes accepted in total
    pub accepted: usize,
    /// bytes dropped because write returned Ok(0) after completion
    pub dropped: usize,
}

/// The uncompressed size in effect for `file` under `options` (None = marker).
pub fn size_in_effect(file: &[u8], options: &Options) -> Option<u64> {
    use lzma_rs::decompress::UnpackedSize as U;
    match options.unpacked_size {
        U::ReadFromHeader => {
            if file.len() >= 13 {
                let v = u64::from_le_bytes(file[5..13].try_into().unwrap());
                if v == u64::MAX {
                    None
                } else {
                    Some(v)
                }
            } else {
                None
            }
        }
        U::ReadHeaderButUseProvided(x) | U::UseProvided(x) => x,
    }
}

/// `cuts`: ascending offsets splitting `file` into pieces.
pub fn drive(file: &[u8], options: &Options, cuts: &[usize], d: &DriveOpts, sink: &SharedSink, obs: &ObsRef) -> StreamRun {
    let mut bounds: Vec<usize> = cuts.iter().map(|&c| c.min(file.len())).collect();
    bounds.push(file.len());
    let mut run = StreamRun {
        verdict: Verdict::Ok,
        failed_piece: None,
        finish_called: false,
        out: vec![],
        snaps: vec![],
        stalled: false,
        accepted: 0,
        dropped: 0,
    };
    let s2 = sink.clone();
    let r = sut::observed(obs, || {
        // Stream::new must be Stream::new_with_options(default): alternate
        let mut s = if crate::sut::is_default_options(options) && file.len() % 2 == 0 { Stream::new(s2) } else { Stream::new_with_options(options, s2) };
        let mut start = 0usize;
        let mut err: Option<String> = None;
        'pieces: for (pi, &end) in bounds.iter().enumerate() {
            let end = end.max(start);
            let mut piece = &file[start..end];
            if d.empty_writes {
                if let Err(e) = s.write(&[]) {
                    err = Some(format!("write(empty): {}", e));
                    run.failed_piece = Some(pi);
                    break 'pieces;
                }
            }
            if d.use_write_all {
                match s.write_all(piece) {
                    Ok(()) => run.accepted += piece.len(),
                    Err(e) => {
                        err = Some(format!("write_all: {}", e));
                        run.failed_piece = Some(pi);
                        break 'pieces;
                    }
                }
            } else {
                while !piece.is_empty() {
                    match s.write(piece) {
                        Ok(0) => {
                            // legal only once the declared size has been produced
                            let snap = s.verif_snapshot();
                            let complete = snap.phase == 1
                                && size_in_effect(file, options).map_or(false, |n| snap.produced >= n);
                            if !complete {
                                run.stalled = true;
                            }
                            run.dropped += piece.len();
                            piece = &[];
                        }
                        Ok(n) => {
                            run.accepted += n;
                            piece = &piece[n..];
                        }
                        Err(e) => {
                            err = Some(format!("write: {}", e));
                            run.failed_piece = Some(pi);
                            break 'pieces;
                        }
                    }
                }
            }
            if d.flush_between {
                if let Err(e) = s.flush() {
                    err = Some(format!("flush: {}", e));
                    run.failed_piece = Some(pi);
                    break 'pieces;
                }
            }
            start = end;
            let snap = s.verif_snapshot();
            run.snaps.push((start, snap, sink.len() as usize));
        }
        if let Some(e) = err {
            // the statement compares verdicts after finish; a failed stream's
            // finish must fail too (C16), but here the history already failed
            return Err(e);
        }
        if d.skip_finish {
            return Ok(());
        }
        run.finish_called = true;
        s.finish().map(|_| ()).map_err(|e| format!("finish: {}", e))
    });
    run.verdict = match r {
        Ok(Ok(())) => Verdict::Ok,
        Ok(Err(e)) => Verdict::Err(e),
        Err(v) => v,
    };
    run.out = sink.bytes();
    run
}

/// Chunking generators -------------------------------------------------------

pub fn cuts_const(len: usize, size: usize) -> Vec<usize> {
    let size = size.max(1);
    (1..).map(|i| i * size).take_while(|&c| c < len).collect()
}

pub fn cuts_random(rng: &mut crate::util::Rng, len: usize, n: usize) -> Vec<usize> {
    let mut v: Vec<usize> = (0..n).map(|_| rng.usize_below(len + 1)).collect();
    v.sort();
    v
}

pub fn cuts_from_sizes(rng: &mut crate::util::Rng, len: usize, sizes: &[usize]) -> Vec<usize> {
    let mut v = Vec::new();
    let mut p = 0usize;
    while p < len {
        p += *rng.pick(sizes);
        if p < len {
            v.push(p);
        }
    }
    v
}

//! C04 - Compression round-trips and is format-conformant for every input.

use super::common::*;
use crate::gen::io::{ChaosReader, SharedSink, ShortReader};
use crate::gen::prog::structured_data;
use crate::liblzma as ll;
use crate::refmodel::lzma::{decode as ref_decode, DecStop, Model, Props};
use crate::refmodel::lzma2;
use crate::refmodel::xz::{self, XzVerdict};
use crate::runner::*;
use crate::sut::{self, Entry, Verdict};
use crate::util::{Rng, J};
use lzma_rs::compress;
use lzma_rs::decompress::UnpackedSize as DUS;
use std::io::BufReader;

const ENC: [&str; 5] = [
    "lzma WriteToHeader(None)",
    "lzma WriteToHeader(Some(len))",
    "lzma SkipWritingToHeader",
    "lzma2",
    "xz",
];
const READERS: [&str; 9] = ["whole slice", "BufReader cap 1", "BufReader small over short reads", "chaos short reads", "BufReader 64K over short reads", "short prefix slice chained with the rest", "chaos windows up to 200 KiB", "BufReader 256K over short reads up to 100 KiB", "reader that also returns Interrupted (retry) now and then, behind a BufReader"];
const CONTENT: [&str; 7] = ["zeros", "0xFF", "random", "low-entropy", "structured", "alternating", "hook-guided"];

fn content(rng: &mut Rng, kind: usize, n: usize) -> Vec<u8> {
    match kind {
        0 => vec![0; n],
        1 => vec![0xFF; n],
        2 => rng.bytes(n),
        3 => (0..n).map(|_| *rng.pick(b"ab\x00")).collect(),
        4 => structured_data(rng, n),
        _ => (0..n).map(|i| if i % 2 == 0 { 0x00 } else { 0xFF }).collect(),
    }
}

pub struct EncRun {
    pub verdict: Verdict,
    pub out: Vec<u8>,
    pub rc_carries: u64,
    pub rc_carry_onto_ff: u64,
    pub rc_max_cachesz: u32,
    pub rc_shifts: u64,
}

/// Run one lzma-rs encoder over `data` with the given input fragmentation.
pub fn encode(enc: usize, reader: usize, data: &[u8], seed: u64, sink: &SharedSink) -> EncRun {
    let obs = sut::new_obs(u64::MAX);
    let mut w = sink.clone();
    let r = sut::observed(&obs, || {
        let run = |input: &mut dyn std::io::BufRead, w: &mut SharedSink| -> std::io::Result<()> {
            let mut input = input;
            match enc {
                // WriteToHeader(None) is the documented default: alternate with the plain wrapper
                0 if seed % 2 == 0 => lzma_rs::lzma_compress(&mut input, w),
                0 => lzma_rs::lzma_compress_with_options(
                    &mut input,
                    w,
                    &compress::Options { unpacked_size: compress::UnpackedSize::WriteToHeader(None) },
                ),
                1 => lzma_rs::lzma_compress_with_options(
                    &mut input,
                    w,
                    &compress::Options { unpacked_size: compress::UnpackedSize::WriteToHeader(Some(data.len() as u64)) },
                ),
                2 => lzma_rs::lzma_compress_with_options(
                    &mut input,
                    w,
                    &compress::Options { unpacked_size: compress::UnpackedSize::SkipWritingToHeader },
                ),
                3 => lzma_rs::lzma2_compress(&mut input, w),
                _ => lzma_rs::xz_compress(&mut input, w),
            }
        };
        match reader {
            0 => {
                let mut s: &[u8] = data;
                run(&mut s, &mut w)
            }
            1 => run(&mut BufReader::with_capacity(1, data), &mut w),
            2 => run(&mut BufReader::with_capacity(1 + (seed % 7) as usize, ShortReader::new(data, 3, seed)), &mut w),
            3 => run(&mut ChaosReader::new(data, seed, 1 + (seed % 300) as usize), &mut w),
            4 => run(&mut BufReader::with_capacity(1 << 16, ShortReader::new(data, 40_000, seed)), &mut w),
            5 => {
                use std::io::Read;
                let k = (seed % 1000) as usize % (data.len() + 1);
                run(&mut data[..k].chain(&data[k..]), &mut w)
            }
            6 => run(&mut ChaosReader::new(data, seed, 200_000), &mut w),
            7 => run(&mut BufReader::with_capacity(1 << 18, ShortReader::new(data, 100_000, seed)), &mut w),
            _ => run(
                &mut BufReader::with_capacity(*[1usize << 16, 8192, 300][(seed % 3) as usize..].first().unwrap(), crate::gen::io::InterruptingReader::new(data, 50_000, seed, 2 + seed % 5)),
                &mut w,
            ),
        }
        .map_err(|e| e.to_string())
    });
    let o = obs.borrow();
    EncRun {
        verdict: match r {
            Ok(Ok(())) => Verdict::Ok,
            Ok(Err(e)) => Verdict::Err(e),
            Err(v) => v,
        },
        out: sink.bytes(),
        rc_carries: o.rc_carries,
        rc_carry_onto_ff: o.rc_carry_onto_ff,
        rc_max_cachesz: o.rc_max_cachesz,
        rc_shifts: o.rc_shifts,
    }
}

/// Conformance of the encoder output, judged without lzma-rs.
fn conformance(enc: usize, data: &[u8], out: &[u8]) -> Result<(), String> {
    match enc {
        0 | 1 | 2 => {
            let hdr = if enc == 2 { 5 } else { 13 };
            if out.len() < hdr + 5 {
                return Err(format!("output only {} bytes", out.len()));
            }
            if out[0] != 93 {
                return Err(format!("properties byte {} (expected 93 = lc3 lp0 pb2)", out[0]));
            }
            let dict = u32::from_le_bytes([out[1], out[2], out[3], out[4]]);
            if dict != 0x0080_0000 {
                return Err(format!("dictionary size field {:#x}", dict));
            }
            if enc != 2 {
                let f = u64::from_le_bytes(out[5..13].try_into().unwrap());
                let want = if enc == 0 { u64::MAX } else { data.len() as u64 };
                if f != want {
                    return Err(format!("size field {:#x}, expected {:#x}", f, want));
                }
            }
            let payload = &out[hdr..];
            if payload[0] != 0 {
                return Err("first range-coder byte is not 0".into());
            }
            let mut model = Model::new(Props::new(3, 0, 2));
            let mut hist = Vec::new();
            let limit = if enc == 0 { None } else { Some(data.len() as u64) };
            let r = ref_decode(&mut model, &mut hist, payload, limit, 0x0080_0000);
            match (enc, r.stop) {
                (0, DecStop::Marker { code_zero: true }) | (1, DecStop::SizeReached) | (2, DecStop::SizeReached) => {}
                (_, s) => return Err(format!("reference decoder stops with {:?} after {} bytes", s, hist.len())),
            }
            if r.consumed != payload.len() {
                return Err(format!("reference decoder used {} of {} payload bytes", r.consumed, payload.len()));
            }
            if hist != data {
                return Err(format!("reference decoder output differs: {}", describe_mismatch(data, &hist)));
            }
            // liblzma
            let mut file = out[..5].to_vec();
            file.extend_from_slice(&(if enc == 0 { u64::MAX } else { data.len() as u64 }).to_le_bytes());
            file.extend_from_slice(payload);
            let d = ll::alone_decode(&file);
            if !(d.ok() && d.out == data && d.total_in as usize == file.len()) {
                return Err(format!("liblzma .lzma decoder: ret {} out {} bytes in {}/{}", d.ret, d.out.len(), d.total_in, file.len()));
            }
            Ok(())
        }
        3 => {
            match lzma2::read(out, true, true) {
                Ok(r) if r.output == data && r.consumed == out.len() => {}
                Ok(r) => return Err(format!("strict LZMA2 reader: output/consumption differs ({} bytes, {} of {} consumed)", r.output.len(), r.consumed, out.len())),
                Err(e) => return Err(format!("strict LZMA2 reader: {:?}", e)),
            }
            let d = ll::lzma2_raw_decode(out, 1 << 16);
            if !(d.ok() && d.out == data && d.total_in as usize == out.len()) {
                return Err(format!("liblzma raw LZMA2 decoder: ret {}", d.ret));
            }
            Ok(())
        }
        _ => {
            match xz::parse_strict(out) {
                XzVerdict::Ok(o) if o == data => {}
                XzVerdict::Ok(_) => return Err("strict XZ parser: output differs".into()),
                XzVerdict::Unsupported(s) => return Err(format!("strict XZ parser: unsupported {}", s)),
                XzVerdict::Invalid(s) => return Err(format!("strict XZ parser: {}", s)),
            }
            let d = ll::xz_decode(out, false);
            if !(d.ok() && d.out == data && d.total_in as usize == out.len()) {
                return Err(format!("liblzma .xz decoder: ret {}", d.ret));
            }
            Ok(())
        }
    }
}

fn self_decode(enc: usize, data_len: usize, out: &[u8]) -> (Verdict, Vec<u8>) {
    let (entry, opts) = match enc {
        0 | 1 => (Entry::Lzma, sut::default_options()),
        2 => (Entry::Lzma, sut::opts(DUS::UseProvided(Some(data_len as u64)), None, false)),
        3 => (Entry::Lzma2, sut::default_options()),
        _ => (Entry::Xz, sut::default_options()),
    };
    sut::decode_simple(entry, out, &opts)
}

/// One full check; returns (max cachesz, carries) for the guided search.
#[allow(clippy::too_many_arguments)]
fn check_one(
    out: &mut CaseOut,
    cov: &mut Cov,
    ctx: &CaseCtx,
    enc: usize,
    reader: usize,
    ckind: usize,
    data: &[u8],
    seed: u64,
) -> (u32, u64) {
    // calls are independent: one that failed half-way (here: the sink refuses its k-th write) on
    // this thread just before must leave nothing behind that shows up in the next call's output
    if seed % 5 == 1 && !data.is_empty() {
        let k = 1 + (seed >> 8) % 3;
        let bad = SharedSink::new().with(|s| s.fail_write_at = Some(k));
        let other: Vec<u8> = data.iter().rev().take(70_000).map(|b| b ^ 0x5A).collect();
        let r = encode(enc, (seed >> 4) as usize % 5, &other, seed ^ 1, &bad);
        cov.name(if r.verdict.is_ok() { "earlier_call_with_failing_sink.succeeded_anyway" } else { "earlier_call_with_failing_sink.failed" }, 1);
    }
    let sink = SharedSink::new();
    let er = encode(enc, reader, data, seed, &sink);
    out.evals += 1;
    cov.inc("encoder", enc as u32);
    cov.inc("input_reader", reader as u32);
    cov.inc("content", ckind as u32);
    cov.inc("length_class", match data.len() { 0 => 0, 1 => 1, 2..=65534 => 2, 65535 => 3, 65536 => 4, 65537 => 5, 65538..=131071 => 6, 131072 => 7, 131073 => 8, _ => 9 });
    cov.name("rc.shifts", er.rc_shifts);
    cov.name("rc.carries", er.rc_carries);
    cov.name("rc.carries_onto_a_pending_0xFF_byte", er.rc_carry_onto_ff);
    cov.max("rc_cachesz", er.rc_max_cachesz as u64);
    out.nontrivial.push(case_hash(&[data, &[enc as u8, reader as u8]]));
    let what = format!("{} | input {} bytes ({}) | reader: {}", ENC[enc], data.len(), CONTENT[ckind], READERS[reader]);
    let dj = || J::obj().set("input_hex", J::s(crate::util::hex_trunc(data, 2048))).set("input_len", J::i(data.len())).set("case", J::s(what.as_str()));
    if reader == 8 && er.verdict.is_err() {
        // reporting the interruption is fine (the caller may retry); carrying on is fine too -
        // but then the output has to be complete, which the checks below decide
        cov.name("interrupting_reader.encoder_reported_the_interruption", 1);
        return (0, 0);
    }
    if reader == 8 {
        cov.name("interrupting_reader.encoder_carried_on", 1);
    }
    if !er.verdict.is_ok() {
        out.violate(format!("C04/{}/encoder-failed/{}", ENC[enc], verdict_sig(&er.verdict)), format!("{}: {}", what, er.verdict.short()), dj());
        return (0, 0);
    }
    ctx.say(format!("{} -> {} bytes, carries {}, max cachesz {}", what, er.out.len(), er.rc_carries, er.rc_max_cachesz));
    let (dv, dout) = self_decode(enc, data.len(), &er.out);
    out.evals += 1;
    if !(dv.is_ok() && dout == data) {
        out.violate(
            format!("C04/{}/round-trip", ENC[enc]),
            format!("{}: lzma-rs does not decode its own output back: {} {}", what, dv.short(), if dv.is_ok() { describe_mismatch(data, &dout) } else { String::new() }),
            dj().set("encoded_hex", J::s(crate::util::hex_trunc(&er.out, 2048))),
        );
    }
    if let Err(e) = conformance(enc, data, &er.out) {
        out.violate(
            format!("C04/{}/conformance", ENC[enc]),
            format!("{}: output is not conformant: {}", what, e),
            dj().set("encoded_hex", J::s(crate::util::hex_trunc(&er.out, 2048))),
        );
    }
    (er.rc_max_cachesz, er.rc_carries)
}

fn lengths(rng: &mut Rng, tier: Tier) -> usize {
    match rng.below(14) {
        0 => 0,
        1 => 1,
        2 => 2,
        3 => 65535,
        4 => 65536,
        5 => 65537,
        6 => 131072,
        7 => 131073,
        8 => *rng.pick(&[196608usize, 262144, 1 << 20]).min(&tier.pick(1usize << 20, 1 << 20)),
        9 => rng.range(65530, 65545) as usize,
        // multi-byte integer boundaries of the XZ index (uncompressed size n and
        // unpadded size n + 16 crossing 128 and 16384)
        10 => *rng.pick(&[110usize, 111, 112, 113, 126, 127, 128, 129, 16365, 16366, 16367, 16368, 16369, 16383, 16384, 16385]),
        _ => rng.range(3, 5000) as usize,
    }
}

fn fam_random(ctx: &CaseCtx, cov: &mut Cov) -> CaseOut {
    let mut out = CaseOut::default();
    let mut rng = ctx.rng();
    let n = lengths(&mut rng, ctx.tier);
    let ckind = rng.usize_below(6);
    let data = content(&mut rng, ckind, n);
    let enc = rng.usize_below(5);
    // one-byte readers on big inputs are slow but legal; keep them to moderate sizes
    let reader = if n > 200_000 { *rng.pick(&[0usize, 3, 4, 5, 6, 7, 8]) } else { rng.usize_below(9) };
    let seed = rng.next();
    check_one(&mut out, cov, ctx, enc, reader, ckind, &data, seed);
    out.sample = Some(J::obj().set("encoder", J::s(ENC[enc])).set("input_len", J::i(n)).set("content", J::s(CONTENT[ckind])).set("reader", J::s(READERS[reader])));
    out
}

/// fixed grid: every encoder x every boundary length x every reader
fn fam_grid(ctx: &CaseCtx, cov: &mut Cov) -> CaseOut {
    let mut out = CaseOut::default();
    let lens = [0usize, 1, 2, 65535, 65536, 65537, 131072, 131073];
    let i = ctx.index as usize;
    let enc = i % 5;
    let len = lens[(i / 5) % lens.len()];
    let reader = (i / 40) % 9;
    let mut rng = ctx.rng();
    let ckind = [2usize, 0, 1, 4][(i / 360) % 4];
    let data = content(&mut rng, ckind, len);
    check_one(&mut out, cov, ctx, enc, reader, ckind, &data, i as u64 + 1);
    out
}

/// xz_compress on inputs whose index fields (unpadded size, uncompressed size) land on and next
/// to the 1/2/3/4-byte boundaries of the multi-byte integer encoding - reached by sheer length
/// with a whole-slice reader, and at a quarter of the length with one-byte reads (every read
/// becomes an LZMA2 chunk of its own, three header bytes each)
fn fam_xz_size_fields(ctx: &CaseCtx, cov: &mut Cov) -> CaseOut {
    let mut out = CaseOut::default();
    let i = ctx.index as usize;
    let boundary = [7u32, 14, 21][i % 3];
    let delta = (i / 3) % 5; // -2..=2
    let field = (i / 15) % 2; // 0: uncompressed size, 1: unpadded size
    let reader = (i / 30) % 2; // 0: whole slice, 1: BufReader cap 1
    let target = (1usize << boundary) + delta - 2;
    // block header 12 bytes, chunk headers 3 bytes each, end byte, CRC32 check 4 bytes
    let len = if field == 0 {
        target
    } else if reader == 0 {
        let mut l = target.saturating_sub(17);
        while l > 0 && 12 + l + 3 * ((l + 65535) / 65536) + 1 + 4 > target {
            l -= 1;
        }
        l
    } else {
        target.saturating_sub(17) / 4
    };
    // one-byte reads of two megabytes would only repeat what half a megabyte shows
    let len = if reader == 1 && field == 0 && boundary == 21 { (target - 17) / 4 + delta } else { len };
    let mut rng = ctx.rng();
    let ckind = [0usize, 4, 3][i % 3];
    let data = content(&mut rng, ckind, len);
    cov.name(&format!("xz_size_fields.2^{}.{}", boundary, ["uncompressed", "unpadded"][field]), 1);
    check_one(&mut out, cov, ctx, 4, reader, ckind, &data, i as u64 + 1);
    out
}

/// hook-guided search: mutate the input to maximise pending 0xFF runs / carries
/// in the range encoder (feedback = RcShift events), checking every candidate
fn fam_guided(ctx: &CaseCtx, cov: &mut Cov) -> CaseOut {
    let mut out = CaseOut::default();
    let mut rng = ctx.rng();
    let n = rng.range(200, 3000) as usize;
    let mut best = rng.bytes(n);
    let enc = *rng.pick(&[0usize, 1, 2]);
    let (mut best_sz, mut best_c) = check_one(&mut out, cov, ctx, enc, 0, 6, &best, 1);
    let iters = ctx.tier.pick(60, 400);
    for _ in 0..iters {
        let mut cand = best.clone();
        for _ in 0..rng.range(1, 4) {
            let p = rng.usize_below(cand.len());
            match rng.below(3) {
                0 => cand[p] = rng.byte(),
                1 => cand[p] ^= 1 << rng.below(8),
                _ => {
                    let q = rng.usize_below(cand.len());
                    cand.swap(p, q)
                }
            }
        }
        let (sz, c) = check_one(&mut out, cov, ctx, enc, 0, 6, &cand, 1);
        if (sz, c) > (best_sz, best_c) {
            best = cand;
            best_sz = sz;
            best_c = c;
        }
    }
    cov.max("guided_search_best_cachesz", best_sz as u64);
    out.sample = Some(J::obj().set("encoder", J::s(ENC[enc])).set("input_len", J::i(n)).set("best_cachesz", J::i(best_sz)).set("carries", J::i(best_c)));
    out
}

/// Exact arithmetic model of the literal-only encoder (lc=3, lp=0, pb=2), used
/// only to CONSTRUCT inputs: it lets a greedy search pick, byte by byte, literals
/// that keep the range coder's carry undecided (a growing run of pending 0xFF
/// bytes) and then resolve the run with or without a carry. Random inputs reach
/// runs of 3-5; this reaches 10-14. The verdict still comes from running the real
/// encoder on the constructed input.
#[derive(Clone)]
struct LitSim {
    lit: Vec<[u16; 0x300]>,
    is_match: [u16; 4],
    low: u64,
    range: u32,
    cache_size: u64,
    pos: usize,
    prev: u8,
    /// set when the last shift emitted bytes with a carry
    last_carry: bool,
    /// a shift happened while a carry was pending AND the byte below the carry was 0xFF
    /// (low in [0x1_FF00_0000, 0x2_0000_0000)): the carry resolves the pending run and the
    /// byte that becomes the new cache is itself 0xFF
    carry_onto_ff: u32,
    shifts: u64,
}

impl LitSim {
    fn new() -> Self {
        LitSim { lit: vec![[0x400; 0x300]; 8], is_match: [0x400; 4], low: 0, range: 0xFFFF_FFFF, cache_size: 1, pos: 0, prev: 0, last_carry: false, carry_onto_ff: 0, shifts: 0 }
    }
    fn shift(&mut self) {
        self.shifts += 1;
        if (self.low >> 32) != 0 && (self.low as u32) >= 0xFF00_0000 {
            self.carry_onto_ff += 1;
        }
        if (self.low as u32) < 0xFF00_0000 || (self.low >> 32) != 0 {
            self.last_carry = (self.low >> 32) != 0;
            self.cache_size = 0;
        }
        self.cache_size += 1;
        self.low = (self.low & 0x00FF_FFFF) << 8;
    }
    fn bit(&mut self, prob: &mut u16, bit: u32) {
        let bound = (self.range >> 11) * (*prob as u32);
        if bit == 0 {
            self.range = bound;
            *prob += (0x800 - *prob) >> 5;
        } else {
            self.low += bound as u64;
            self.range -= bound;
            *prob -= *prob >> 5;
        }
        while self.range < 0x0100_0000 {
            self.range <<= 8;
            self.shift();
        }
    }
    /// Encode one literal on a scratch copy of (low, range) only: returns the
    /// resulting (low, range) and whether a carry landed on an 0xFF byte on the way.
    fn trial(&self, b: u8) -> (u64, u32, bool) {
        let (mut low, mut range, mut hit) = (self.low, self.range, false);
        let mut step = |p: u16, bit: u32| {
            let bound = (range >> 11) * (p as u32);
            if bit == 0 {
                range = bound;
            } else {
                low += bound as u64;
                range -= bound;
            }
            while range < 0x0100_0000 {
                range <<= 8;
                if (low >> 32) != 0 && (low as u32) >= 0xFF00_0000 {
                    hit = true;
                }
                low = (low & 0x00FF_FFFF) << 8;
            }
        };
        step(self.is_match[self.pos & 3], 0);
        let ctx = (self.prev >> 5) as usize;
        let mut sym = 1usize;
        for i in (0..8).rev() {
            let bit = ((b >> i) & 1) as u32;
            step(self.lit[ctx][sym], bit);
            sym = (sym << 1) | bit as usize;
        }
        (low, range, hit)
    }
    fn literal(&mut self, b: u8) {
        self.last_carry = false;
        let mut p = self.is_match[self.pos & 3];
        self.bit(&mut p, 0);
        self.is_match[self.pos & 3] = p;
        let ctx = (self.prev >> 5) as usize;
        let mut sym = 1usize;
        for i in (0..8).rev() {
            let bit = ((b >> i) & 1) as u32;
            let mut p = self.lit[ctx][sym];
            self.bit(&mut p, bit);
            self.lit[ctx][sym] = p;
            sym = (sym << 1) | bit as usize;
        }
        self.prev = b;
        self.pos += 1;
    }
}

/// Build an input whose encoding contains a pending-0xFF run of about `target`
/// bytes that is then resolved by a carry (or, if `want_carry` is false, without).
fn adversarial_carry_input(rng: &mut Rng, target: u64, want_carry: bool) -> (Vec<u8>, u64) {
    let mut sim = LitSim::new();
    let mut out: Vec<u8> = Vec::new();
    // random warm-up so the probabilities are not all fresh
    for _ in 0..rng.range(0, 64) {
        let b = rng.byte();
        sim.literal(b);
        out.push(b);
    }
    let mut best_run = 0u64;
    for _ in 0..4000 {
        // try every byte; prefer the one that leaves the longest undecided run
        let mut best: Option<(u64, u8)> = None;
        let start = rng.byte();
        for k in 0..256u32 {
            let b = start.wrapping_add(k as u8);
            let mut t = sim.clone();
            t.literal(b);
            if want_carry && sim.cache_size >= target && t.last_carry {
                // resolves the long run with a carry: done
                out.push(b);
                for _ in 0..rng.range(1, 16) {
                    out.push(rng.byte());
                }
                return (out, sim.cache_size);
            }
            if !want_carry && sim.cache_size >= target && t.cache_size <= 2 && !t.last_carry {
                out.push(b);
                for _ in 0..rng.range(1, 16) {
                    out.push(rng.byte());
                }
                return (out, sim.cache_size);
            }
            let score = t.cache_size;
            if best.map_or(true, |(s, _)| score > s) {
                best = Some((score, b));
            }
        }
        let (score, b) = best.unwrap();
        best_run = best_run.max(score);
        sim.literal(b);
        out.push(b);
    }
    (out, best_run)
}

/// inputs constructed to drive the range encoder through long pending-0xFF runs
fn fam_adversarial(ctx: &CaseCtx, cov: &mut Cov) -> CaseOut {
    let mut out = CaseOut::default();
    let mut rng = ctx.rng();
    let target = *rng.pick(&[2u64, 3, 5, 7, 8, 9, 10, 11, 12, 14]);
    let want_carry = !rng.chance(1, 4);
    let (data, run) = adversarial_carry_input(&mut rng, target, want_carry);
    let enc = *rng.pick(&[0usize, 1, 2]);
    let before = (cov.maxes.get("rc_cachesz").copied().unwrap_or(0), cov.get_named("rc.carries"));
    let (sz, carries) = check_one(&mut out, cov, ctx, enc, 0, 6, &data, 1);
    let _ = before;
    cov.max("adversarial_pending_run_observed_by_hook", sz as u64);
    cov.name(if want_carry { "adversarial.run_resolved_by_carry" } else { "adversarial.run_resolved_without_carry" }, 1);
    cov.add("adversarial_run_length", (sz as u32).min(64), 1);
    let _ = (run, carries);
    out.sample = Some(J::obj().set("encoder", J::s(ENC[enc])).set("input_len", J::i(data.len())).set("pending_run_target", J::i(target)).set("pending_run_observed_by_hook", J::i(sz)).set("resolved_by_carry", J::Bool(want_carry)));
    out
}

/// Build an input during whose encoding a carry arrives while the byte under
/// the carry is 0xFF (low in [0x1_FF00_0000, 0x2_0000_0000) at a shift) - the
/// corner of `write_low` where both halves of its flush condition are true.
/// Steering: greedy on the top of the coding interval, two-literal look-ahead
/// for the hit once the interval reaches into the target.
fn carry_onto_ff_input(rng: &mut Rng, max_steps: usize) -> Option<Vec<u8>> {
    let mut sim = LitSim::new();
    let mut out: Vec<u8> = Vec::new();
    // small byte values skew the top of the literal tree, so that a later byte with high
    // bits set takes almost the whole interval (needed to climb to its very top)
    let alpha = *rng.pick(&[8u64, 16, 32, 32, 64]);
    for _ in 0..rng.range(24, 96) {
        let b = rng.below(alpha) as u8;
        sim.literal(b);
        out.push(b);
    }
    let base_hits = sim.carry_onto_ff;
    for _ in 0..max_steps {
        for b in 0..=255u8 {
            let (low, range, hit) = sim.trial(b);
            if hit {
                out.push(b);
                return Some(out);
            }
            // promising: after the is_match bit of the literal after `b` the coder shifts and is
            // left with both `low` and `range` close to 2^32, the interval reaching into the target
            let p = sim.is_match[(sim.pos + 1) & 3] as u32;
            let bound = (range >> 11) * p;
            if bound < 0x0100_0000 && bound >= 0x00FE_0000 && ((low >> 16) & 0xFF) == 0xFF && ((low & 0x00FF_FFFF) << 8) + ((bound as u64) << 8) > 0x1_FF00_0000 {
                let mut t = sim.clone();
                t.literal(b);
                for c in 0..=255u8 {
                    if t.trial(c).2 {
                        out.push(b);
                        out.push(c);
                        return Some(out);
                    }
                }
            }
        }
        let b = if rng.chance(1, 12) { rng.byte() } else { rng.below(alpha) as u8 };
        sim.literal(b);
        out.push(b);
    }
    let _ = base_hits;
    None
}

pub fn debug_trace(data: &[u8]) {
    let mut sim = LitSim::new();
    for (i, &b) in data.iter().enumerate() {
        let before = (sim.low, sim.range, sim.shifts);
        sim.literal(b);
        println!("{:3} byte {:3}: before low {:#011x} range {:#010x} top {:#011x} | after low {:#011x} range {:#010x} shifts {} hit {}", i, b, before.0, before.1, before.0 + before.1 as u64, sim.low, sim.range, sim.shifts - before.2, sim.carry_onto_ff);
    }
}

/// inputs constructed so that a carry lands on an 0xFF byte in the range encoder
fn fam_carry_onto_ff(ctx: &CaseCtx, cov: &mut Cov) -> CaseOut {
    let mut out = CaseOut::default();
    let mut rng = ctx.rng();
    match carry_onto_ff_input(&mut rng, ctx.tier.pick(60_000, 400_000)) {
        Some(mut data) => {
            cov.name("carry_onto_ff.inputs_constructed", 1);
            cov.max("carry_onto_ff.input_len", data.len() as u64);
            for _ in 0..rng.range(0, 24) {
                data.push(rng.byte());
            }
            let enc = *rng.pick(&[0usize, 1, 2]);
            let _ = check_one(&mut out, cov, ctx, enc, 0, 6, &data, 1);
            out.sample = Some(J::obj().set("encoder", J::s(ENC[enc])).set("input_len", J::i(data.len())).set("constructed", J::s("carry arrives while the byte under it is 0xFF")));
        }
        None => cov.name("carry_onto_ff.search_gave_up", 1),
    }
    out
}

fn label(group: &str, i: u32) -> String {
    match group {
        "encoder" => ENC[i as usize].to_string(),
        "input_reader" => READERS[i as usize].to_string(),
        "content" => CONTENT[i as usize].to_string(),
        "length_class" => ["0", "1", "2..65534", "65535", "65536", "65537", "65538..131071", "131072", "131073", ">131073"][i as usize].to_string(),
        _ => std_label(group, i),
    }
}

fn floors(_: Tier, cov: &Cov) -> Vec<String> {
    let mut m = Vec::new();
    if cov.group_nonzero("encoder") < 5 || cov.group_nonzero("input_reader") < 9 || cov.group_nonzero("length_class") < 10 {
        m.push("encoder / reader / length grid incomplete".into());
    }
    if cov.maxes.get("adversarial_pending_run_observed_by_hook").copied().unwrap_or(0) < 10 {
        m.push("no pending-0xFF run of 10 or more bytes observed in the range encoder".into());
    }
    if cov.get_named("rc.carries_onto_a_pending_0xFF_byte") < 3 {
        m.push("fewer than 3 carries onto an 0xFF byte observed in the range encoder (RcShift hook)".into());
    }
    if cov.get_named("rc.carries") == 0 {
        m.push("no carry observed in the range encoder".into());
    }
    m
}

pub fn monitor(tier: Tier) -> Monitor {
    Monitor {
        id: "C04",
        level: "exploration",
        rule: "cases = (input bytes, encoder in {lzma x 3 options, lzma2, xz}, input fragmentation in 8 patterns (whole slice, 1-byte BufReader, small BufReader over short reads, random windows up to 300 bytes / up to 200 KiB, 64 KiB and 256 KiB BufReaders over short reads, a short prefix slice chained with the rest, a reader that now and then returns Interrupted before handing out data - the encoder may report that, but if it carries on the output must be complete)): a fixed grid over the boundary lengths 0/1/2/65535/65536/65537/131072/131073, seeded random cases (7 content kinds, lengths up to 1 MiB) a hook-guided search that mutates inputs to maximise pending-0xFF runs and carries in the range encoder (RcShift events), and inputs CONSTRUCTED with an exact arithmetic model of the literal coder so that the carry stays undecided for 2..14 output bytes and is then resolved with / without a carry (the RcShift hook confirms the run length the real encoder went through), or so that a carry arrives while the byte under it is itself 0xFF - low in [0x1_FF00_0000, 2^33) at a shift, the corner where both halves of the flush condition hold; found by a steered search on the model, confirmed by the hook's view of the real encoder's low register; every encoder output must (i) decode back with lzma-rs and the matching option, (ii) satisfy the reference decoder / strict LZMA2 reader / strict XZ parser incl. header fields and exact payload length, (iii) decode with liblzma; distinct by hash of (input, encoder, reader)",
        assumptions: vec![
            "WriteToHeader(Some(x)) with x != input length is a documented caller error and is not generated".into(),
            "independent conforming decoders = reference decoder (self-checked) and system liblzma".into(),
        ],
        families: vec![
            Family { name: "grid", count: 1440, priority: true, enumerated: false, run: fam_grid },
            Family { name: "xz_size_fields", count: 60, priority: true, enumerated: false, run: fam_xz_size_fields },
            Family { name: "random", count: tier.pick(4_000, 200_000), priority: false, enumerated: false, run: fam_random },
            Family { name: "guided", count: tier.pick(150, 4000), priority: false, enumerated: false, run: fam_guided },
            Family { name: "adversarial_carry", count: tier.pick(120, 4000), priority: true, enumerated: false, run: fam_adversarial },
            Family { name: "carry_onto_ff", count: tier.pick(40, 1500), priority: true, enumerated: false, run: fam_carry_onto_ff },
        ],
        label,
        floors,
        summarize: no_summary,
    }
}

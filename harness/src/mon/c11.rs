//! C11 - Decoders consume exactly the compressed payload and nothing after it.

use super::common::*;
use crate::gen::io::{ReaderKind, SharedSink};
use crate::gen::l2gen::{gen_chunks, L2Params};
use crate::gen::prog::{ProgGen, ProgParams};
use crate::refmodel::lzma::Props;
use crate::refmodel::lzma2;
use crate::refmodel::program::{Interp, Sym};
use crate::refmodel::xz::{BlockOpts, BlockSpec, XzSpec};
use crate::runner::*;
use crate::sut::{self, Entry, Verdict};
use crate::util::{Rng, J};
use lzma_rs::decompress::raw::Lzma2Decoder;
use lzma_rs::decompress::UnpackedSize;

const TRAIL_NAMES: [&str; 8] = ["none", "one 0x00", "one 0xFF", "random 1-64", "another stream", "zero bytes x 4k (what the container format calls padding)", "zero bytes, other counts", "container magic / header-like bytes"];
/// The whole-file decoders must also reject trailing bytes when the reader, at one of its last
/// calls (among them the end-of-input probe), reports a retryable interruption first: any error is
/// fine, success is not.
fn reject_despite_interruption(entry: Entry, tag: &str, data: &[u8], rk: ReaderKind, out: &mut CaseOut, cov: &mut Cov) {
    use crate::gen::io::ReadStats;
    use std::cell::RefCell;
    use std::rc::Rc;
    let rs = Rc::new(RefCell::new(ReadStats::default()));
    let _ = sut::decode_with_stats(entry, data, &sut::default_options(), rk, &SharedSink::new(), &sut::new_obs(u64::MAX), rs.clone());
    let n = rs.borrow().calls;
    for k in n.saturating_sub(4).max(1)..=n {
        let rs = Rc::new(RefCell::new(ReadStats { interrupt_at: Some(k), ..Default::default() }));
        let c = sut::decode_with_stats(entry, data, &sut::default_options(), rk, &SharedSink::new(), &sut::new_obs(u64::MAX), rs.clone());
        out.evals += 1;
        cov.name("trailing_bytes_with_reader_interrupted_near_the_end", 1);
        if c.verdict.is_ok() {
            out.violate(
                format!("C11/{}/trailing-bytes-accepted-when-the-reader-is-interrupted", tag),
                format!("{} with trailing bytes, reader {} interrupted once at call {} of {}: Ok", tag, rk.name(), k, n),
                J::obj().set("input_hex", J::s(crate::util::hex_trunc(data, 2048))),
            );
            return;
        }
    }
}

const API_NAMES: [&str; 6] = [
    "lzma header-size",
    "lzma provided-size",
    "lzma raw sized",
    "lzma2 one-shot",
    "lzma2 raw",
    "lzma2 inside xz",
];

fn trailing(rng: &mut Rng, which: usize, again: &[u8]) -> Vec<u8> {
    match which {
        0 => vec![],
        1 => vec![0],
        2 => vec![0xFF],
        3 => {
            let n = rng.range(1, 64) as usize;
            rng.bytes(n)
        }
        4 => again.to_vec(),
        5 => vec![0; 4 * rng.range(1, 16) as usize],
        6 => vec![0; *rng.pick(&[2usize, 3, 5, 6, 7, 9, 13, 63, 65])],
        _ => {
            let mut v = match rng.below(4) {
                0 => vec![0xFD, b'7', b'z', b'X', b'Z', 0x00],
                1 => vec![0xFD, b'7', b'z', b'X', b'Z', 0x00, 0x00, 0x01, 0x69, 0x22, 0xDE, 0x36],
                2 => vec![0x59, 0x5A],
                _ => vec![0x5D, 0x00, 0x00, 0x10, 0x00, 0xFF, 0xFF, 0xFF, 0xFF, 0xFF, 0xFF, 0xFF, 0xFF],
            };
            if rng.chance(1, 3) {
                let mut z = vec![0u8; 4 * rng.range(1, 3) as usize];
                z.append(&mut v);
                v = z;
            }
            v
        }
    }
}

fn readers(rng: &mut Rng) -> Vec<ReaderKind> {
    vec![
        ReaderKind::Slice,
        ReaderKind::Cursor,
        ReaderKind::Buf(1),
        ReaderKind::Buf(*rng.pick(&[2usize, 3, 7])),
        ReaderKind::Buf(8192),
        ReaderKind::Chaos { seed: rng.next(), k: *rng.pick(&[1usize, 2, 5, 16]) },
    ]
}

#[allow(clippy::too_many_arguments)]
fn judge_exact(
    out: &mut CaseOut,
    cov: &mut Cov,
    api: usize,
    rk: ReaderKind,
    verdict: &Verdict,
    consumed: usize,
    want: usize,
    total: usize,
    got: &[u8],
    expect: &[u8],
    input: &[u8],
) {
    cov.inc("api", api as u32);
    cov.name(&format!("reader.{}", rk.class()), 1);
    let data = || J::obj().set("input_hex", J::s(crate::util::hex_trunc(input, 2048)));
    if !verdict.is_ok() || got != expect {
        out.violate(
            format!("C11/{}/valid-payload-not-decoded", API_NAMES[api]),
            format!(
                "{} with {} trailing bytes, reader {}: {} ({} output bytes, expected {})",
                API_NAMES[api],
                total - want,
                rk.name(),
                verdict.short(),
                got.len(),
                expect.len()
            ),
            data(),
        );
        return;
    }
    if consumed != want {
        out.violate(
            format!(
                "C11/{}/{}",
                API_NAMES[api],
                if consumed > want { "read-past-payload" } else { "stopped-before-payload-end" }
            ),
            format!(
                "{} reader {}: consumed {} bytes, the payload ends at {} (input {} bytes)",
                API_NAMES[api],
                rk.name(),
                consumed,
                want,
                total
            ),
            data(),
        );
    }
}

/// size-bounded LZMA payloads followed by arbitrary bytes
fn fam_lzma(ctx: &CaseCtx, cov: &mut Cov) -> CaseOut {
    let mut out = CaseOut::default();
    let mut rng = ctx.rng();
    let props = Props::new(rng.below(9) as u32, rng.below(5) as u32, rng.below(5) as u32);
    let mut it = Interp::new();
    let mut pg = ProgGen::new();
    let n_syms = if rng.chance(1, 10) { 0 } else { rng.range(1, 300) as usize };
    let pp = ProgParams::standard(n_syms, 4096);
    let mut prog = pg.generate(&mut rng, &pp, &mut it);
    // one payload in forty ends in a long run of the cheapest symbol (a full-length repeat of the
    // last distance): kilobytes of output are still owed when the last input byte has been read,
    // and whether bytes FOLLOW the payload must make no difference to that
    if !prog.is_empty() && rng.chance(1, 40) {
        for _ in 0..rng.range(20, 250) {
            prog.push(Sym::Rep { idx: 0, len: 273 });
        }
        cov.name("payloads_ending_in_a_long_cheap_run", 1);
    }
    let enc = match encode_valid(&prog, props, &mut out) {
        Some(e) => e,
        None => return out,
    };
    let len = enc.output.len() as u64;
    let which = rng.usize_below(TRAIL_NAMES.len());
    let t = trailing(&mut rng, which, &enc.payload);
    cov.inc("trailing", which as u32);
    for rk in readers(&mut rng) {
        let api = rng.usize_below(3);
        let sink = SharedSink::varied(rng.next(), enc.output.len());
        let obs = sut::new_obs(u64::MAX);
        let (c, input, want) = match api {
            0 => {
                let mut f = sut::lzma_header(props.byte(), 4096, Some(Some(len)));
                f.extend_from_slice(&enc.payload);
                let want = f.len();
                f.extend_from_slice(&t);
                // options that do not bind a complete, well-formed stream must not move the reader
                // either: incomplete input allowed, a generous memory limit
                let o = match rng.below(4) {
                    0 => sut::opts(UnpackedSize::ReadFromHeader, None, true),
                    1 => sut::opts(UnpackedSize::ReadFromHeader, Some(1 << 30), rng.chance(1, 2)),
                    _ => sut::default_options(),
                };
                cov.name(if o.allow_incomplete { "sized_lzma.incomplete_input_allowed" } else { "sized_lzma.default_incomplete_handling" }, 1);
                (sut::decode(Entry::Lzma, &f, &o, rk, &sink, &obs), f, want)
            }
            1 => {
                let mut f = sut::lzma_header(props.byte(), 4096, None);
                f.extend_from_slice(&enc.payload);
                let want = f.len();
                f.extend_from_slice(&t);
                let o = sut::opts(UnpackedSize::UseProvided(Some(len)), None, rng.chance(1, 3));
                (sut::decode(Entry::Lzma, &f, &o, rk, &sink, &obs), f, want)
            }
            _ => {
                let mut f = enc.payload.clone();
                let want = f.len();
                f.extend_from_slice(&t);
                match sut::raw_lzma_new(props.lc, props.lp, props.pb, 4096, Some(len), None) {
                    Ok(mut d) => {
                        let first = sut::raw_lzma_decompress(&mut d, &f, rk, &sink, &obs);
                        // a container with several members: the same decoder object, reset, decodes the
                        // next member in place (reset(None) keeps the size, reset(Some(..)) sets it)
                        if first.verdict.is_ok() && rng.chance(1, 2) {
                            let keep = rng.chance(1, 2);
                            // after reset(Some(size)) the next member is a DIFFERENT stream of a different
                            // length (same properties); after reset(None) it must have the old size
                            let other = if keep {
                                None
                            } else {
                                let mut it2 = Interp::new();
                                let n2 = if rng.chance(1, 8) { 0 } else { rng.range(1, 400) as usize };
                                let prog2 = ProgGen::new().generate(&mut rng, &ProgParams::standard(n2, 4096), &mut it2);
                                encode_valid(&prog2, props, &mut out)
                            };
                            let (f2, want2, expect2) = match &other {
                                Some(e2) => {
                                    let mut f2 = e2.payload.clone();
                                    let w = f2.len();
                                    f2.extend_from_slice(&t);
                                    (f2, w, e2.output.clone())
                                }
                                None => (f.clone(), want, enc.output.clone()),
                            };
                            let len2 = expect2.len() as u64;
                            let _ = sut::guarded(|| d.reset(if keep { None } else { Some(Some(len2)) }));
                            let sink2 = SharedSink::new();
                            let c2 = sut::raw_lzma_decompress(&mut d, &f2, rk, &sink2, &sut::new_obs(u64::MAX));
                            out.evals += 1;
                            cov.name(if keep { "raw_decoder_second_member_after_reset(None)" } else if len2 > len { "raw_decoder_second_member_after_reset(Some(larger size))" } else if len2 < len { "raw_decoder_second_member_after_reset(Some(smaller size))" } else { "raw_decoder_second_member_after_reset(Some(same size))" }, 1);
                            judge_exact(&mut out, cov, api, rk, &c2.verdict, c2.consumed, want2, f2.len(), &sink2.bytes(), &expect2, &f2);
                        }
                        (first, f, want)
                    }
                    Err(v) => {
                        out.harness_error(format!("raw constructor: {}", v.short()));
                        return out;
                    }
                }
            }
        };
        out.evals += 1;
        out.nontrivial.push(case_hash(&[&input, &[api as u8], rk.name().as_bytes()]));
        judge_exact(&mut out, cov, api, rk, &c.verdict, c.consumed, want, input.len(), &sink.bytes(), &enc.output, &input);
    }
    // converse: the marker-terminated whole-file decoder rejects trailing bytes
    if !t.is_empty() {
        let mut p2 = prog.clone();
        p2.push(Sym::Eos);
        if let Some(e2) = encode_valid(&p2, props, &mut out) {
            // "marker-terminated" is decided by the option in effect, not by what the header's size
            // field happens to hold: the caller saying "size unknown" overrides any header value
            let l2 = e2.output.len() as u64;
            let (hdr, mopts, how) = match rng.below(6) {
                0 | 1 | 2 => (sut::lzma_header(props.byte(), 4096, Some(None)), sut::default_options(), "header field all ones"),
                3 => (
                    sut::lzma_header(props.byte(), 4096, Some(Some(*rng.pick(&[l2, l2 + 5, 0, l2.saturating_sub(1), u64::MAX - 1])))),
                    sut::opts(UnpackedSize::ReadHeaderButUseProvided(None), None, false),
                    "caller says unknown, header field holds a number",
                ),
                4 => (sut::lzma_header(props.byte(), 4096, Some(None)), sut::opts(UnpackedSize::ReadHeaderButUseProvided(None), None, false), "caller says unknown, header field all ones"),
                _ => (sut::lzma_header(props.byte(), 4096, None), sut::opts(UnpackedSize::UseProvided(None), None, false), "caller says unknown, no header field"),
            };
            cov.name(&format!("marker_stream.{}", how), 1);
            let mut f = hdr;
            f.extend_from_slice(&e2.payload);
            let clean = f.clone();
            f.extend_from_slice(&t);
            let rk = ReaderKind::random(&mut rng);
            let sink = SharedSink::new();
            let c = sut::decode(Entry::Lzma, &f, &mopts, rk, &sink, &sut::new_obs(u64::MAX));
            out.evals += 1;
            cov.name("marker_stream_with_trailing", 1);
            if !c.verdict.is_err() {
                out.violate(
                    "C11/lzma-marker/trailing-bytes-accepted",
                    format!(
                        "marker-terminated .lzma ({}) followed by {} bytes ({}), reader {}: {}",
                        how,
                        t.len(),
                        TRAIL_NAMES[which],
                        rk.name(),
                        c.verdict.short()
                    ),
                    J::obj().set("input_hex", J::s(crate::util::hex_trunc(&f, 2048))),
                );
            } else if how == "header field all ones" && rng.chance(1, 2) {
                reject_despite_interruption(Entry::Lzma, "lzma-marker", &f, rk, &mut out, cov);
            }
            // and the same file without them is fine (so the rejection is about the trailing bytes)
            let sink = SharedSink::new();
            let c = sut::decode(Entry::Lzma, &clean, &mopts, rk, &sink, &sut::new_obs(u64::MAX));
            if !c.verdict.is_ok() || sink.bytes() != e2.output {
                out.violate(
                    "C11/lzma-marker/clean-file-rejected",
                    format!("marker-terminated .lzma without trailing bytes, reader {}: {}", rk.name(), c.verdict.short()),
                    J::obj().set("input_hex", J::s(crate::util::hex_trunc(&clean, 2048))),
                );
            }
        }
    }
    out.sample = Some(
        J::obj()
            .set("props", J::s(format!("{:?}", props)))
            .set("payload_len", J::i(enc.payload.len()))
            .set("output_len", J::i(enc.output.len()))
            .set("trailing", J::s(TRAIL_NAMES[which])),
    );
    out
}

/// LZMA2 streams (through the end byte) followed by arbitrary bytes; XZ + trailing
fn fam_lzma2(ctx: &CaseCtx, cov: &mut Cov) -> CaseOut {
    let mut out = CaseOut::default();
    let mut rng = ctx.rng();
    let nchunks = rng.range(1, 5) as usize;
    let mut l2p = L2Params::standard(nchunks, 120);
    l2p.extremes = rng.chance(1, 12);
    // sometimes: no chunk at all (the stream is just its end byte), or a last
    // chunk that is uncompressed
    let mut chunks = if rng.chance(1, 25) {
        vec![]
    } else if rng.chance(1, 150) {
        // a compressed chunk whose unpacked size sits on a boundary of its size field
        let target = *rng.pick(&super::c02::SIZE_FIELD_BOUNDARIES);
        cov.name("lzma2_chunk_on_size_field_boundary", 1);
        let props = Props::new(rng.below(5) as u32, 0, rng.below(5) as u32);
        super::c02::sized_chunk_stream(&mut rng, props, target)
    } else {
        gen_chunks(&mut rng, &l2p)
    };
    if !chunks.is_empty() && rng.chance(1, 6) {
        let n = *rng.pick(&[1usize, 2, 255, 256, 4096, 65535, 65536]);
        chunks.push(crate::refmodel::lzma2::Chunk::Raw { reset_dict: rng.chance(1, 3), data: rng.bytes(n) });
    }
    let w = match lzma2::write(&chunks) {
        Ok(w) => w,
        Err(e) => {
            out.harness_error(format!("lzma2 writer: {:?}", e));
            return out;
        }
    };
    let which = rng.usize_below(TRAIL_NAMES.len());
    let t = trailing(&mut rng, which, &w.bytes);
    cov.inc("trailing", which as u32);
    let mut input = w.bytes.clone();
    let want = input.len();
    input.extend_from_slice(&t);
    for rk in readers(&mut rng) {
        let raw = rng.chance(1, 2);
        let sink = SharedSink::varied(rng.next(), w.output.len());
        let obs = sut::new_obs(u64::MAX);
        let c = if raw {
            let mut d = Lzma2Decoder::new();
            sut::raw_lzma2_decompress(&mut d, &input, rk, &sink, &obs)
        } else {
            sut::decode(Entry::Lzma2, &input, &sut::default_options(), rk, &sink, &obs)
        };
        out.evals += 1;
        out.nontrivial.push(case_hash(&[&input, &[raw as u8], rk.name().as_bytes()]));
        judge_exact(&mut out, cov, if raw { 4 } else { 3 }, rk, &c.verdict, c.consumed, want, input.len(), &sink.bytes(), &w.output, &input);
    }
    // the same raw decoder object used for a SECOND member (R20-C11: a `finished` flag that only
    // reset() cleared made the second call return Ok without reading anything): with and
    // without reset() in between; only when the member re-establishes the dictionary itself
    if w.chunks.first().map(|c| c.control == 1 || c.control >= 0xE0).unwrap_or(false) && case_hash(&[&input]) % 2 == 0 {
        let mut d = Lzma2Decoder::new();
        let first = sut::raw_lzma2_decompress(&mut d, &w.bytes, ReaderKind::Slice, &SharedSink::counting_only(), &sut::new_obs(u64::MAX));
        if first.verdict.is_ok() {
            let with_reset = rng.chance(1, 3);
            if with_reset {
                let _ = sut::guarded(|| d.reset());
            }
            let rk = ReaderKind::random(&mut rng);
            let sink = SharedSink::varied(rng.next(), w.output.len());
            let obs = sut::new_obs(u64::MAX);
            let c = sut::raw_lzma2_decompress(&mut d, &input, rk, &sink, &obs);
            out.evals += 1;
            cov.name(if with_reset { "lzma2_raw_decoder_second_member_after_reset()" } else { "lzma2_raw_decoder_second_member_without_reset" }, 1);
            judge_exact(&mut out, cov, 4, rk, &c.verdict, c.consumed, want, input.len(), &sink.bytes(), &w.output, &input);
        }
    }
    // embedded in a container: an .xz block with the size fields absent relies on
    // exactly this (the block padding / check follow immediately)
    let check = *rng.pick(&[0u8, 1, 4]);
    let b = BlockSpec::new(w.bytes.clone(), w.output.clone(), check, &BlockOpts::default());
    let spec = XzSpec::new(check, vec![b]);
    let (file, _) = spec.serialize();
    let rk = ReaderKind::random(&mut rng);
    let sink = SharedSink::new();
    let c = sut::decode(Entry::Xz, &file, &sut::default_options(), rk, &sink, &sut::new_obs(u64::MAX));
    out.evals += 1;
    cov.inc("api", 5);
    if !c.verdict.is_ok() || sink.bytes() != w.output || c.consumed != file.len() {
        out.violate(
            "C11/lzma2-in-xz",
            format!(
                "LZMA2 payload embedded in an .xz block without size fields, reader {}: {} (consumed {}/{})",
                rk.name(),
                c.verdict.short(),
                c.consumed,
                file.len()
            ),
            J::obj().set("input_hex", J::s(crate::util::hex_trunc(&file, 2048))),
        );
    }
    // converse: XZ rejects trailing bytes
    if !t.is_empty() {
        let mut f2 = file.clone();
        f2.extend_from_slice(&t);
        let sink = SharedSink::new();
        let c = sut::decode(Entry::Xz, &f2, &sut::default_options(), rk, &sink, &sut::new_obs(u64::MAX));
        out.evals += 1;
        cov.name("xz_with_trailing", 1);
        if !c.verdict.is_err() {
            out.violate(
                "C11/xz/trailing-bytes-accepted",
                format!(".xz followed by {} bytes ({}), reader {}: {}", t.len(), TRAIL_NAMES[which], rk.name(), c.verdict.short()),
                J::obj().set("input_hex", J::s(crate::util::hex_trunc(&f2, 2048))),
            );
        } else if rng.chance(1, 3) {
            reject_despite_interruption(Entry::Xz, "xz", &f2, rk, &mut out, cov);
        }
    }
    out.sample = Some(
        J::obj()
            .set("chunks", J::Arr(chunks.iter().map(|c| J::s(c.short())).collect()))
            .set("stream_len", J::i(want))
            .set("trailing", J::s(TRAIL_NAMES[which])),
    );
    out
}

/// Payloads CONSTRUCTED so that the range coder's range register is exactly 2^24
/// after the last symbol (the boundary of the normalisation test `range < 2^24`;
/// about 3e-6 per random payload): a bounded search over random tiny programs (the encoder
/// model tells the final range without running lzma-rs).
fn fam_exact_range(ctx: &CaseCtx, cov: &mut Cov) -> CaseOut {
    use crate::refmodel::lzma::{Encoder, Model, RcEnc};
    let mut out = CaseOut::default();
    let mut rng = ctx.rng();
    let props = Props::new(0, 0, rng.below(5) as u32);
    #[derive(Clone)]
    struct Own {
        model: Model,
        hist: Vec<u8>,
        rc: RcEnc,
    }
    fn push(o: &mut Own, s: &Sym) {
        let rc = std::mem::take(&mut o.rc);
        let mut e = Encoder::new(&mut o.model, &mut o.hist);
        e.rc = rc;
        let _ = e.push(s);
        o.rc = e.rc;
    }
    // random tiny programs until one leaves the range register at exactly 2^24
    let mut found: Option<Own> = None;
    let mut tries = 0u64;
    while tries < 4_000_000 {
        tries += 1;
        let mut o = Own { model: Model::new(props), hist: Vec::new(), rc: RcEnc::new() };
        let n = rng.range(1, 6);
        for k in 0..n {
            let s = if k > 0 && rng.chance(1, 4) {
                let d = rng.range(1, o.hist.len() as u64) as u32;
                Sym::Match { dist: d, len: rng.range(2, 12) as u32 }
            } else if k > 0 && rng.chance(1, 8) {
                Sym::ShortRep
            } else {
                Sym::Lit(rng.byte())
            };
            push(&mut o, &s);
        }
        if o.rc.range() == 0x0100_0000 {
            found = Some(o);
            break;
        }
    }
    cov.name("exact_range.search_tries", tries);
    let mut own = match found {
        Some(o) => o,
        None => {
            cov.name("exact_range.not_found", 1);
            return out;
        }
    };
    cov.name("exact_range.payloads_with_final_range_2^24", 1);
    own.rc.finish();
    let payload = own.rc.out.clone();
    let plain = own.hist.clone();
    let len = plain.len() as u64;
    let t = vec![0x5Au8, 0, 0xFF, 1];
    // sized LZMA: header size / provided size / raw
    for rk in [ReaderKind::Slice, ReaderKind::Cursor, ReaderKind::Buf(1), ReaderKind::Buf(8192)] {
        for api in 0..3usize {
            let sink = SharedSink::new();
            let obs = sut::new_obs(u64::MAX);
            let (c, input, want) = match api {
                0 => {
                    let mut f = sut::lzma_header(props.byte(), 4096, Some(Some(len)));
                    f.extend_from_slice(&payload);
                    let w = f.len();
                    f.extend_from_slice(&t);
                    (sut::decode(Entry::Lzma, &f, &sut::default_options(), rk, &sink, &obs), f, w)
                }
                1 => {
                    let mut f = sut::lzma_header(props.byte(), 4096, None);
                    f.extend_from_slice(&payload);
                    let w = f.len();
                    f.extend_from_slice(&t);
                    (sut::decode(Entry::Lzma, &f, &sut::opts(UnpackedSize::UseProvided(Some(len)), None, false), rk, &sink, &obs), f, w)
                }
                _ => {
                    let mut f = payload.clone();
                    let w = f.len();
                    f.extend_from_slice(&t);
                    match sut::raw_lzma_new(props.lc, props.lp, props.pb, 4096, Some(len), None) {
                        Ok(mut d) => (sut::raw_lzma_decompress(&mut d, &f, rk, &sink, &obs), f, w),
                        Err(_) => continue,
                    }
                }
            };
            out.evals += 1;
            out.nontrivial.push(case_hash(&[&input, &[api as u8], rk.name().as_bytes()]));
            judge_exact(&mut out, cov, api, rk, &c.verdict, c.consumed, want, input.len(), &sink.bytes(), &plain, &input);
        }
    }
    // the same payload as the only chunk of an LZMA2 stream, alone and inside .xz
    if !payload.is_empty() && payload.len() <= 65536 && !plain.is_empty() {
        let mut l2 = vec![0xE0u8 | (((plain.len() - 1) >> 16) as u8)];
        l2.extend_from_slice(&(((plain.len() - 1) & 0xFFFF) as u16).to_be_bytes());
        l2.extend_from_slice(&((payload.len() - 1) as u16).to_be_bytes());
        l2.push(props.byte());
        l2.extend_from_slice(&payload);
        l2.push(0);
        let want = l2.len();
        let mut input = l2.clone();
        input.extend_from_slice(&t);
        let sink = SharedSink::new();
        let c = sut::decode(Entry::Lzma2, &input, &sut::default_options(), ReaderKind::Slice, &sink, &sut::new_obs(u64::MAX));
        out.evals += 1;
        judge_exact(&mut out, cov, 3, ReaderKind::Slice, &c.verdict, c.consumed, want, input.len(), &sink.bytes(), &plain, &input);
        let b = BlockSpec::new(l2, plain.clone(), 1, &BlockOpts::default());
        let file = XzSpec::new(1, vec![b]).serialize().0;
        let sink = SharedSink::new();
        let c = sut::decode(Entry::Xz, &file, &sut::default_options(), ReaderKind::Slice, &sink, &sut::new_obs(u64::MAX));
        out.evals += 1;
        cov.inc("api", 5);
        if !c.verdict.is_ok() || sink.bytes() != plain {
            out.violate("C11/lzma2-in-xz", format!("chunk whose coder ends with range == 2^24, inside .xz: {}", c.verdict.short()), J::obj().set("input_hex", J::s(crate::util::hex_trunc(&file, 2048))));
        }
    }
    out.sample = Some(J::obj().set("what", J::s("payload constructed to end with range == 2^24")).set("payload_len", J::i(payload.len())).set("search_tries", J::i(tries)));
    out
}

fn label(group: &str, i: u32) -> String {
    match group {
        "api" => API_NAMES[i as usize].to_string(),
        "trailing" => TRAIL_NAMES[i as usize].to_string(),
        _ => std_label(group, i),
    }
}

fn floors(_: Tier, cov: &Cov) -> Vec<String> {
    let mut m = Vec::new();
    if cov.get_named("exact_range.payloads_with_final_range_2^24") < 10 {
        m.push("fewer than 10 payloads with final range == 2^24 constructed".into());
    }
    if cov.group_nonzero("api") < 6 || cov.group_nonzero("trailing") < 8 {
        m.push("not all entry points / trailing kinds exercised".into());
    }
    m
}

pub fn monitor(tier: Tier) -> Monitor {
    Monitor {
        id: "C11",
        level: "exploration",
        rule: "cases = valid payload (incl. payloads constructed so that the range coder's range register is exactly 2^24 after the last symbol; LZMA size-bounded via header / provided size / raw decoder; LZMA2 via one-shot / raw decoder / embedded in .xz) || trailing bytes (none, 0x00, 0xFF, random 1-64, a second copy of the payload, 4k zero bytes, other zero runs, container magic / header-like bytes, also behind zero runs) x 6 reader kinds; the reader's logical position after Ok must equal the payload length computed by the reference encoder; conversely marker-terminated .lzma and .xz with trailing bytes must fail; distinct by hash of (input, api, reader)",
        assumptions: vec![
            "payload length = reference encoder output (eager normalisation + 5-byte flush), which the self-check shows liblzma's LZMA2 decoder accepts only when exact".into(),
            "size-bounded streams that also carry a marker are excluded (where the payload ends is ambiguous)".into(),
        ],
        families: vec![
            Family { name: "lzma", count: tier.pick(40_000, 800_000), priority: false, enumerated: false, run: fam_lzma },
            Family { name: "lzma2", count: tier.pick(30_000, 600_000), priority: false, enumerated: false, run: fam_lzma2 },
            Family { name: "exact_final_range", count: tier.pick(48, 800), priority: true, enumerated: false, run: fam_exact_range },
        ],
        label,
        floors,
        summarize: no_summary,
    }
}

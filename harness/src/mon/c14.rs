//! C14 - A reset raw decoder is indistinguishable from a new one.

use super::common::*;
use crate::gen::io::{ReaderKind, SharedSink};
use crate::gen::l2gen::{gen_chunks, L2Params};
use crate::gen::prog::{ProgGen, ProgParams};
use crate::refmodel::lzma::Props;
use crate::refmodel::lzma2;
use crate::refmodel::program::{Interp, Sym};
use crate::runner::*;
use crate::sut::{self, Verdict};
use crate::util::{Rng, J};
use lzma_rs::decompress::raw::Lzma2Decoder;

const OPS: [&str; 6] = ["decompress(valid)", "decompress(truncated)", "decompress(corrupt)", "reset(None)", "reset(Some(size))", "decompress(valid, wrong size in effect)"];

fn rich_program(rng: &mut Rng, n: usize, marker: bool) -> Vec<Sym> {
    let mut it = Interp::new();
    let mut pg = ProgGen::new();
    let pp = ProgParams::standard(n, 4096);
    let mut p = pg.generate(rng, &pp, &mut it);
    if marker {
        p.push(Sym::Eos);
    }
    p
}

/// Debug output of a decoder reduced to the adaptive state: the `params` copy
/// kept by LzmaDecoder and the `unpacked_size` fields are set explicitly before
/// every decode and are therefore behaviourally irrelevant.
fn normalize_debug(s: &str) -> String {
    let s = match s.find("state: DecoderState") {
        Some(i) => &s[i..],
        None => s,
    };
    let mut out = String::with_capacity(s.len());
    let mut rest = s;
    while let Some(i) = rest.find("unpacked_size: ") {
        out.push_str(&rest[..i]);
        let tail = &rest[i..];
        // skip up to the next ',' or ' }' at nesting level 0 of this value
        let mut depth = 0i32;
        let mut end = tail.len();
        for (k, c) in tail.char_indices() {
            match c {
                '(' => depth += 1,
                ')' => depth -= 1,
                ',' if depth == 0 => {
                    end = k;
                    break;
                }
                '}' if depth == 0 => {
                    end = k;
                    break;
                }
                _ => {}
            }
        }
        out.push_str("unpacked_size: _");
        rest = &tail[end..];
    }
    out.push_str(rest);
    out
}

#[derive(Clone)]
enum Op {
    Dec(Vec<u8>),
    /// reset(None)
    ResetKeep,
    /// reset(Some(x))
    Reset(Option<u64>),
}

struct Outcome {
    verdict: Verdict,
    out: Vec<u8>,
    consumed: usize,
}

impl Outcome {
    fn same(&self, o: &Outcome) -> bool {
        self.verdict == o.verdict && self.out == o.out && self.consumed == o.consumed
    }
    fn short(&self) -> String {
        format!("{} / {} bytes out / {} consumed", self.verdict.short(), self.out.len(), self.consumed)
    }
}

fn fam_lzma(ctx: &CaseCtx, cov: &mut Cov) -> CaseOut {
    let mut out = CaseOut::default();
    let mut rng = ctx.rng();
    // big literal tables (lc+lp up to 12 = 6 MiB) are slow to build: one case in eight
    let props = if rng.chance(1, 8) {
        Props::new(rng.below(9) as u32, rng.below(5) as u32, rng.below(5) as u32)
    } else {
        let lc = rng.below(5) as u32;
        Props::new(lc, rng.below(5 - lc as u64) as u32, rng.below(5) as u32)
    };
    let dict: u32 = *rng.pick(&[64u32, 4096, 4096, 1 << 16]);
    // the memory limit is a constructor parameter like the others: a quarter of the histories use
    // one (below, at or above the dictionary size), identically for the reused and the new decoder
    let memlimit: Option<usize> = if rng.chance(1, 4) { Some(*rng.pick(&[0usize, 50, 1000, 4095, 4096, 5000, 1 << 16, 1 << 20])) } else { None };
    if memlimit.is_some() {
        cov.name("histories_with_a_memory_limit", 1);
    }
    // pool of streams for these properties
    let mut pool: Vec<(Vec<u8>, u64, bool)> = Vec::new(); // (payload, true length, has marker)
    for _ in 0..4 {
        let marker = rng.chance(1, 3);
        let np = rng.range(5, 400) as usize;
        let prog = rich_program(&mut rng, np, marker);
        // keep distances inside the smallest dictionary used
        let prog: Vec<Sym> = if dict < 4096 {
            let mut it = Interp::new();
            let mut pg = ProgGen::new();
            let pp = ProgParams::standard(prog.len(), dict as u64);
            let mut p = pg.generate(&mut rng, &pp, &mut it);
            if marker {
                p.push(Sym::Eos);
            }
            p
        } else {
            prog
        };
        if let Ok((payload, _t, hist)) = crate::refmodel::lzma::encode_program(&prog, props) {
            pool.push((payload, hist.len() as u64, marker));
        }
    }
    if pool.is_empty() {
        out.harness_error("empty pool");
        return out;
    }
    let initial_size: Option<u64> = if rng.chance(1, 2) { Some(pool[0].1) } else { None };
    let mut dec = match sut::raw_lzma_new(props.lc, props.lp, props.pb, dict, initial_size, memlimit) {
        Ok(d) => d,
        Err(v) => {
            out.harness_error(format!("constructor: {}", v.short()));
            return out;
        }
    };
    let mut size_in_effect = initial_size;
    let mut ops: Vec<Op> = Vec::new();
    let cycles = rng.range(1, ctx.tier.pick(12, 200));
    let mut log: Vec<String> = Vec::new();
    for cycle in 0..cycles {
        // a few arbitrary operations
        for _ in 0..rng.range(0, 4) {
            let op = rng.weighted(&[4, 3, 3, 1, 2, 2]);
            cov.inc("op", op as u32);
            match op {
                0 | 1 | 2 | 5 => {
                    let (p, len, marker) = &pool[rng.usize_below(pool.len())];
                    let mut data = p.clone();
                    match op {
                        1 => data.truncate(rng.usize_below(data.len().max(1))),
                        2 => {
                            let i = rng.usize_below(data.len());
                            data[i] ^= 1 << rng.below(8);
                        }
                        _ => {}
                    }
                    if op == 0 && rng.chance(1, 2) {
                        // make it really succeed: put the matching size in effect first
                        let s = if *marker && rng.chance(1, 2) { None } else { Some(*len) };
                        sut::guarded(|| dec.reset(Some(s))).ok();
                        size_in_effect = s;
                        log.push(format!("reset(Some({:?}))", s));
                        ops.push(Op::Reset(s));
                    }
                    let sink = SharedSink::new();
                    let obs = sut::new_obs(u64::MAX);
                    let c = sut::raw_lzma_decompress(&mut dec, &data, ReaderKind::Slice, &sink, &obs);
                    ops.push(Op::Dec(data.clone()));
                    cov.inc("history_decompress_verdict", c.verdict.is_ok() as u32);
                    log.push(format!("{} -> {}", OPS[op], c.verdict.short().chars().take(60).collect::<String>()));
                    if c.verdict.is_abnormal() {
                        // C07's finding, not C14's; stop this history
                        return out;
                    }
                }
                3 => {
                    sut::guarded(|| dec.reset(None)).ok();
                    log.push("reset(None)".into());
                    ops.push(Op::ResetKeep);
                }
                _ => {
                    let s = match rng.below(3) {
                        0 => None,
                        1 => Some(pool[rng.usize_below(pool.len())].1),
                        _ => Some(rng.range(0, 500)),
                    };
                    sut::guarded(|| dec.reset(Some(s))).ok();
                    size_in_effect = s;
                    log.push(format!("reset(Some({:?}))", s));
                    ops.push(Op::Reset(s));
                }
            }
        }
        // the observation: reset, then decode y; compare with a fresh decoder
        let arg: Option<Option<u64>> = match rng.below(3) {
            0 => None,
            _ => {
                let (_, len, marker) = &pool[rng.usize_below(pool.len())];
                Some(if *marker && rng.chance(1, 2) { None } else if rng.chance(1, 5) { Some(len + 1) } else { Some(*len) })
            }
        };
        cov.inc("op", if arg.is_none() { 3 } else { 4 });
        if sut::guarded(|| dec.reset(arg)).is_err() {
            out.violate("C14/lzma/reset-panicked", format!("reset({:?}) panicked after: {}", arg, log.join(" ; ")), J::Null);
            return out;
        }
        if let Some(s) = arg {
            size_in_effect = s;
        }
        log.push(format!("reset({:?})", arg));
        match arg {
            None => ops.push(Op::ResetKeep),
            Some(a) => ops.push(Op::Reset(a)),
        }
        let (ypayload, _, _) = &pool[rng.usize_below(pool.len())];
        let mut y = ypayload.clone();
        match rng.below(5) {
            0 => y.truncate(rng.usize_below(y.len().max(1))),
            1 => {
                let i = rng.usize_below(y.len());
                y[i] ^= 1 << rng.below(8);
            }
            _ => {}
        }
        let mut fresh = match sut::raw_lzma_new(props.lc, props.lp, props.pb, dict, size_in_effect, memlimit) {
            Ok(d) => d,
            Err(v) => {
                out.harness_error(format!("constructor: {}", v.short()));
                return out;
            }
        };
        // state witness: digest hook over the whole adaptive state (every lc/lp/pb);
        // the Debug output is only formatted to name the differing field
        let digest_differs = dec.verif_state_digest() != fresh.verif_state_digest();
        cov.name("state_digest_compared_after_reset", 1);
        let witness = digest_differs || (props.lc + props.lp <= 3 && rng.chance(1, 8));
        let dbg_reset = if witness { normalize_debug(&format!("{:?}", dec)) } else { String::new() };
        let dbg_fresh = if witness { normalize_debug(&format!("{:?}", fresh)) } else { String::new() };
        let ysel = case_hash(&[&y]);
        let run = |d: &mut lzma_rs::decompress::raw::LzmaDecoder| {
            // reader and sink behaviour vary with y, identically for both decoders
            let sink = SharedSink::varied(ysel >> 8, 1 << 17);
            let obs = sut::new_obs(u64::MAX);
            let c = sut::raw_lzma_decompress(d, &y, ReaderKind::from_selector(ysel), &sink, &obs);
            let syms = obs.borrow().syms;
            (Outcome { verdict: c.verdict, out: sink.bytes(), consumed: c.consumed }, syms)
        };
        let (a, syms) = run(&mut dec);
        let (b, _) = run(&mut fresh);
        out.evals += 1;
        cov.inc("observation_verdict", a.verdict.is_ok() as u32);
        cov.max("reuse_cycles", cycle + 1);
        cov.name("symbols_decoded_by_reset_decoder", syms);
        if !witness {
        } else if dbg_reset != dbg_fresh || digest_differs {
            // not by itself a violation (a behaviourally irrelevant cache would be legal)
            let field = dbg_reset
                .split(", ")
                .zip(dbg_fresh.split(", "))
                .find(|(x, y)| x != y)
                .map(|(x, _)| x.chars().take(40).collect::<String>())
                .unwrap_or_default();
            out.warnings.push(format!("Debug output of reset LzmaDecoder differs from a fresh one near `{}`", field));
            // The adaptive state differs. That is only a violation if some follow-up
            // stream can tell: replay the recorded history on new decoders and look for one.
            cov.name("debug_state_differs.searching_distinguishing_stream", 1);
            let mut cands: Vec<Vec<u8>> = pool.iter().map(|p| p.0.clone()).collect();
            for _ in 0..40 {
                let n = rng.range(20, 600) as usize;
                let mk = rng.chance(1, 2);
                let pr = rich_program(&mut rng, n, mk);
                if let Ok((pl, _, _)) = crate::refmodel::lzma::encode_program(&pr, props) {
                    cands.push(pl);
                }
            }
            for cand in &cands {
                let mut a = match sut::raw_lzma_new(props.lc, props.lp, props.pb, dict, initial_size, memlimit) {
                    Ok(d) => d,
                    Err(_) => break,
                };
                for op in &ops {
                    match op {
                        Op::Dec(d) => {
                            let _ = sut::raw_lzma_decompress(&mut a, d, ReaderKind::Slice, &SharedSink::new(), &sut::new_obs(u64::MAX));
                        }
                        Op::ResetKeep => {
                            let _ = sut::guarded(|| a.reset(None));
                        }
                        Op::Reset(x) => {
                            let _ = sut::guarded(|| a.reset(Some(*x)));
                        }
                    }
                }
                let mut b = match sut::raw_lzma_new(props.lc, props.lp, props.pb, dict, size_in_effect, memlimit) {
                    Ok(d) => d,
                    Err(_) => break,
                };
                let run2 = |d: &mut lzma_rs::decompress::raw::LzmaDecoder| {
                    let sink = SharedSink::new();
                    let c = sut::raw_lzma_decompress(d, cand, ReaderKind::Slice, &sink, &sut::new_obs(u64::MAX));
                    Outcome { verdict: c.verdict, out: sink.bytes(), consumed: c.consumed }
                };
                let ra = run2(&mut a);
                let rb = run2(&mut b);
                out.evals += 1;
                if !ra.same(&rb) {
                    out.violate(
                        "C14/lzma/reset-differs-from-new",
                        format!(
                            "state after reset differs from a fresh decoder (Debug near `{}`) and a follow-up stream tells them apart: reset decoder: {}; fresh decoder: {}; history: {}",
                            field, ra.short(), rb.short(), log.iter().rev().take(10).rev().cloned().collect::<Vec<_>>().join(" ; ")
                        ),
                        J::obj().set("y_hex", J::s(crate::util::hex_trunc(cand, 2048))).set("history", J::Arr(log.iter().map(|s| J::s(s.as_str())).collect())),
                    );
                    return out;
                }
            }
        } else {
            cov.name("debug_state_identical_after_reset", 1);
        }
        if syms > 0 {
            out.nontrivial.push(case_hash(&[&y, log.join(";").as_bytes()]));
        }
        if !a.same(&b) {
            out.violate(
                if a.verdict.is_abnormal() { format!("C14/lzma/{}", verdict_sig(&a.verdict)) } else { "C14/lzma/reset-differs-from-new".to_string() },
                format!(
                    "lc{} lp{} pb{} dict {} size in effect {:?}: reset decoder: {}; fresh decoder: {}; history: {}",
                    props.lc, props.lp, props.pb, dict, size_in_effect, a.short(), b.short(),
                    log.iter().rev().take(10).rev().cloned().collect::<Vec<_>>().join(" ; ")
                ),
                J::obj().set("y_hex", J::s(crate::util::hex_trunc(&y, 2048))).set("history", J::Arr(log.iter().map(|s| J::s(s.as_str())).collect())),
            );
            return out;
        }
        if ctx.verbose {
            ctx.say(format!("cycle {}: {} == fresh", cycle, a.short()));
        }
    }
    out.sample = Some(J::obj().set("decoder", J::s("LzmaDecoder")).set("props", J::s(format!("{:?}", props))).set("history", J::Arr(log.iter().take(12).map(|s| J::s(s.as_str())).collect())));
    out
}

fn fam_lzma2(ctx: &CaseCtx, cov: &mut Cov) -> CaseOut {
    let mut out = CaseOut::default();
    let mut rng = ctx.rng();
    let mut pool: Vec<Vec<u8>> = Vec::new();
    for _ in 0..4 {
        // streams that change properties mid-stream and end on lc+lp != 0
        let n = rng.range(1, 5) as usize;
        let mut p = L2Params::standard(n, 150);
        p.w = [1, 2, 4, 2, 5, 3];
        let chunks = gen_chunks(&mut rng, &p);
        if let Ok(w) = lzma2::write(&chunks) {
            pool.push(w.bytes);
        }
    }
    if pool.is_empty() {
        out.harness_error("empty pool");
        return out;
    }
    let mut dec = Lzma2Decoder::new();
    let cycles = rng.range(1, ctx.tier.pick(12, 200));
    let mut log: Vec<String> = Vec::new();
    for cycle in 0..cycles {
        for _ in 0..rng.range(0, 4) {
            let op = rng.weighted(&[4, 3, 3, 2]);
            match op {
                3 => {
                    sut::guarded(|| dec.reset()).ok();
                    log.push("reset()".into());
                    cov.inc("op", 3);
                }
                _ => {
                    let mut data = pool[rng.usize_below(pool.len())].clone();
                    match op {
                        1 => data.truncate(rng.usize_below(data.len())),
                        2 => {
                            let i = rng.usize_below(data.len());
                            data[i] ^= 1 << rng.below(8);
                        }
                        _ => {}
                    }
                    cov.inc("op", op as u32);
                    let sink = SharedSink::new();
                    let obs = sut::new_obs(u64::MAX);
                    let c = sut::raw_lzma2_decompress(&mut dec, &data, ReaderKind::Slice, &sink, &obs);
                    cov.inc("history_decompress_verdict", c.verdict.is_ok() as u32);
                    log.push(format!("{} -> {}", OPS[op], c.verdict.short().chars().take(60).collect::<String>()));
                    if c.verdict.is_abnormal() {
                        return out;
                    }
                }
            }
        }
        if sut::guarded(|| dec.reset()).is_err() {
            out.violate("C14/lzma2/reset-panicked", format!("reset() panicked after: {}", log.join(" ; ")), J::Null);
            return out;
        }
        log.push("reset()".into());
        let mut y = pool[rng.usize_below(pool.len())].clone();
        match rng.below(6) {
            0 => y.truncate(rng.usize_below(y.len())),
            1 => {
                let i = rng.usize_below(y.len());
                y[i] ^= 1 << rng.below(8);
            }
            2 => {
                // a first chunk that does NOT carry properties: what it decodes to depends
                // entirely on the decoder's initial properties (lzma-rs accepts this)
                if y[0] >= 0xC0 {
                    y[0] = 0x80 | (y[0] & 0x1F);
                    y.remove(5);
                }
            }
            _ => {}
        }
        let mut fresh = Lzma2Decoder::new();
        let digest_differs = dec.verif_state_digest() != fresh.verif_state_digest();
        cov.name("state_digest_compared_after_reset", 1);
        let witness = digest_differs || rng.chance(1, 8);
        let dbg_reset = if witness { normalize_debug(&format!("{:?}", dec)) } else { String::new() };
        let dbg_fresh = if witness { normalize_debug(&format!("{:?}", fresh)) } else { String::new() };
        let ysel = case_hash(&[&y]);
        let run = |d: &mut Lzma2Decoder| {
            let sink = SharedSink::varied(ysel >> 8, 1 << 17);
            let obs = sut::new_obs(u64::MAX);
            let c = sut::raw_lzma2_decompress(d, &y, ReaderKind::from_selector(ysel), &sink, &obs);
            let syms = obs.borrow().syms;
            (Outcome { verdict: c.verdict, out: sink.bytes(), consumed: c.consumed }, syms)
        };
        let (a, syms) = run(&mut dec);
        let (b, _) = run(&mut fresh);
        out.evals += 1;
        cov.inc("observation_verdict", a.verdict.is_ok() as u32);
        cov.max("reuse_cycles", cycle + 1);
        if !witness {
        } else if dbg_reset != dbg_fresh || digest_differs {
            out.warnings.push("Debug output of reset Lzma2Decoder differs from a fresh one".into());
        } else {
            cov.name("debug_state_identical_after_reset", 1);
        }
        if syms > 0 || !a.out.is_empty() {
            out.nontrivial.push(case_hash(&[&y, log.join(";").as_bytes(), b"l2"]));
        }
        if !a.same(&b) {
            out.violate(
                if a.verdict.is_abnormal() { format!("C14/lzma2/{}", verdict_sig(&a.verdict)) } else { "C14/lzma2/reset-differs-from-new".to_string() },
                format!("reset decoder: {}; fresh decoder: {}; history: {}", a.short(), b.short(), log.iter().rev().take(10).rev().cloned().collect::<Vec<_>>().join(" ; ")),
                J::obj().set("y_hex", J::s(crate::util::hex_trunc(&y, 2048))).set("history", J::Arr(log.iter().map(|s| J::s(s.as_str())).collect())),
            );
            return out;
        }
    }
    out.sample = Some(J::obj().set("decoder", J::s("Lzma2Decoder")).set("history", J::Arr(log.iter().take(12).map(|s| J::s(s.as_str())).collect())));
    out
}

// ---------------------------------------------------------------------------
// Histories that bring PART of the adaptive state back to exactly its initial
// value while the rest is dirty. An adaptive probability returns to 0x400
// after the bit sequences below (found by enumeration), so "this cell still
// looks untouched" does not imply "nothing was decoded". The two cells every
// non-empty decode touches first are literal context 0 and is_match[0][0].

const CYCLES: [&[u8]; 6] = [
    &[0, 0, 1, 1, 1, 0],
    &[1, 1, 0, 0, 0, 1],
    &[0, 0, 1, 1, 0, 1, 1, 0],
    &[0, 1, 1, 1, 0, 0, 0, 1],
    &[1, 0, 0, 0, 1, 1, 1, 0],
    &[1, 1, 0, 0, 1, 0, 0, 1],
];

/// Byte suffixes (8 - d bits) for `n` visits of a literal-tree node at depth `d`
/// such that every node above depth `depth` sees whole return cycles.
fn balanced(rng: &mut Rng, d: u32, depth: u32, n: usize, plen: usize) -> Vec<u8> {
    if d == 8 {
        return vec![0; n];
    }
    if d >= depth {
        return (0..n).map(|_| (rng.below(1 << (8 - d))) as u8).collect();
    }
    let pats: Vec<&[u8]> = CYCLES.iter().copied().filter(|p| p.len() == plen).collect();
    let pat = *rng.pick(&pats);
    let ones = balanced(rng, d + 1, depth, n / 2, plen);
    let zeros = balanced(rng, d + 1, depth, n / 2, plen);
    let (mut i1, mut i0) = (0, 0);
    let mut v = Vec::with_capacity(n);
    for i in 0..n {
        let bit = pat[i % plen];
        let sub = if bit == 1 {
            i1 += 1;
            ones[i1 - 1]
        } else {
            i0 += 1;
            zeros[i0 - 1]
        };
        v.push((bit << (7 - d)) | sub);
    }
    v
}

fn lit_state(s: usize) -> usize {
    if s < 4 {
        0
    } else if s < 10 {
        s - 3
    } else {
        s - 6
    }
}

fn fam_returning(ctx: &CaseCtx, cov: &mut Cov) -> CaseOut {
    let mut out = CaseOut::default();
    let mut rng = ctx.rng();
    let variant = rng.below(2);
    let mut prog: Vec<Sym> = Vec::new();
    let mut marker_ok = true;
    let props;
    if variant == 0 {
        // literal context 0 returns to its initial state down to tree depth `depth`
        let lp = rng.range(1, 4) as u32;
        let lc = if rng.chance(1, 6) { rng.below(9) as u32 } else { rng.below(5) as u32 };
        props = Props::new(lc, lp, rng.below(5) as u32);
        let depth = if rng.chance(1, 2) { 8 } else { rng.range(1, 8) as u32 };
        let plen = if rng.chance(3, 4) { 6 } else { 8 };
        let n = plen << (depth - 1);
        let targets = balanced(&mut rng, 0, depth, n, plen);
        let period = 1usize << lp;
        for t in targets {
            prog.push(Sym::Lit(t));
            for k in 1..period {
                let mut f = rng.below(256) as u8;
                if k == period - 1 && lc > 0 {
                    f &= (0xFFu32 >> lc) as u8;
                }
                prog.push(Sym::Lit(f));
            }
        }
        cov.inc("returning_lit_depth", depth);
    } else {
        // is_match[0][0] returns to its initial value
        props = Props::new(rng.below(5) as u32, rng.below(4) as u32, rng.below(5) as u32);
        let pats: Vec<&[u8]> = CYCLES.iter().copied().filter(|p| p[0] == 0).collect();
        let pat = *rng.pick(&pats);
        let rounds = rng.range(1, 4) as usize * pat.len();
        let (mut state, mut pos, mut v) = (0usize, 0u64, 0usize);
        let pmask = (1u64 << props.pb) - 1;
        while v < rounds && prog.len() < 5000 {
            let at_cell = state == 0 && (pos & pmask) == 0;
            let want_match = if at_cell {
                v += 1;
                pat[(v - 1) % pat.len()] == 1
            } else {
                pos > 0 && rng.chance(1, 5)
            };
            if want_match {
                let len = rng.range(2, 9) as u32;
                prog.push(Sym::Match { dist: rng.range(1, pos.min(8)) as u32, len });
                pos += len as u64;
                state = if state < 7 { 7 } else { 10 };
            } else {
                prog.push(Sym::Lit(rng.below(256) as u8));
                pos += 1;
                state = lit_state(state);
            }
        }
        if v < rounds {
            out.harness_error("is_match[0][0] cycle not completed");
            return out;
        }
        // an end marker is coded as a match: it must not touch the cell again
        marker_ok = !(state == 0 && (pos & pmask) == 0);
    }
    // sometimes leave the coder in a non-initial automaton state / with used distances
    if variant == 0 && rng.chance(1, 3) {
        for _ in 0..rng.range(1, 3) {
            prog.push(Sym::Match { dist: rng.range(1, 8) as u32, len: rng.range(2, 20) as u32 });
        }
    }
    let marker = marker_ok && rng.chance(1, 2);
    if marker {
        prog.push(Sym::Eos);
    }
    // encode and confirm the precondition on the reference model
    let mut model = crate::refmodel::lzma::Model::new(props);
    let mut hist = Vec::new();
    let mut enc = crate::refmodel::lzma::Encoder::new(&mut model, &mut hist);
    if let Err(e) = enc.push_all(&prog) {
        out.harness_error(format!("encode: {:?}", e));
        return out;
    }
    let (x, _, _) = enc.finish();
    let clean_cell = if variant == 0 { model.lit_row(0)[1] == 0x400 } else { model.is_match_cell(0, 0) == 0x400 };
    let others_dirty = model.lit_dirty() > 0;
    if !clean_cell || !others_dirty {
        out.harness_error("constructed history does not have the intended state");
        return out;
    }
    if variant == 0 && model.lit_row(0).iter().all(|&p| p == 0x400) {
        cov.name("returning.literal_context0_fully_clean_others_dirty", 1);
    }
    cov.inc("returning_variant", variant as u32);
    let xlen = hist.len() as u64;
    let dict: u32 = 4096;
    let initial_size = if marker && rng.chance(1, 2) { None } else { Some(xlen) };
    let mut dec = match sut::raw_lzma_new(props.lc, props.lp, props.pb, dict, initial_size, None) {
        Ok(d) => d,
        Err(v) => {
            out.harness_error(format!("constructor: {}", v.short()));
            return out;
        }
    };
    let c = sut::raw_lzma_decompress(&mut dec, &x, ReaderKind::Slice, &SharedSink::new(), &sut::new_obs(u64::MAX));
    if c.verdict.is_abnormal() {
        return out;
    }
    if !c.verdict.is_ok() {
        out.harness_error(format!("constructed history rejected: {}", c.verdict.short()));
        return out;
    }
    // follow-up streams
    let mut cands: Vec<(Vec<u8>, u64, bool)> = Vec::new();
    for k in 0..6 {
        let mk = rng.chance(1, 2);
        let pr: Vec<Sym> = if k < 2 {
            let mut p: Vec<Sym> = (0..rng.range(20, 400)).map(|_| Sym::Lit(rng.below(256) as u8)).collect();
            if mk {
                p.push(Sym::Eos);
            }
            p
        } else {
            let np = rng.range(5, 400) as usize;
            rich_program(&mut rng, np, mk)
        };
        if let Ok((pl, _, h)) = crate::refmodel::lzma::encode_program(&pr, props) {
            cands.push((pl, h.len() as u64, mk));
        }
    }
    if cands.is_empty() {
        out.harness_error("no follow-up stream");
        return out;
    }
    let y0 = &cands[0];
    let arg: Option<Option<u64>> = match rng.below(3) {
        0 => None,
        _ => Some(if y0.2 && rng.chance(1, 2) { None } else { Some(y0.1) }),
    };
    if sut::guarded(|| dec.reset(arg)).is_err() {
        out.violate("C14/lzma/reset-panicked", format!("reset({:?}) panicked after a part-returning history", arg), J::Null);
        return out;
    }
    let size_in_effect = match arg {
        None => initial_size,
        Some(s) => s,
    };
    let fresh = match sut::raw_lzma_new(props.lc, props.lp, props.pb, dict, size_in_effect, None) {
        Ok(d) => d,
        Err(v) => {
            out.harness_error(format!("constructor: {}", v.short()));
            return out;
        }
    };
    let digest_differs = dec.verif_state_digest() != fresh.verif_state_digest();
    cov.name("state_digest_compared_after_reset", 1);
    if digest_differs {
        out.warnings.push("state digest of a reset LzmaDecoder differs from a fresh one after a part-returning history".into());
    }
    let n_obs = if digest_differs { cands.len() } else { 1 };
    for (i, (y, _, _)) in cands.iter().take(n_obs).enumerate() {
        // replay from scratch for every follow-up stream after the first
        let mut a = if i == 0 {
            None
        } else {
            let mut d = match sut::raw_lzma_new(props.lc, props.lp, props.pb, dict, initial_size, None) {
                Ok(d) => d,
                Err(_) => break,
            };
            let _ = sut::raw_lzma_decompress(&mut d, &x, ReaderKind::Slice, &SharedSink::new(), &sut::new_obs(u64::MAX));
            let _ = sut::guarded(|| d.reset(arg));
            Some(d)
        };
        let mut b = match sut::raw_lzma_new(props.lc, props.lp, props.pb, dict, size_in_effect, None) {
            Ok(d) => d,
            Err(_) => break,
        };
        let run = |d: &mut lzma_rs::decompress::raw::LzmaDecoder| {
            let sink = SharedSink::new();
            let obs = sut::new_obs(u64::MAX);
            let c = sut::raw_lzma_decompress(d, y, ReaderKind::Slice, &sink, &obs);
            let syms = obs.borrow().syms;
            (Outcome { verdict: c.verdict, out: sink.bytes(), consumed: c.consumed }, syms)
        };
        let (ra, syms) = match a.as_mut() {
            Some(d) => run(d),
            None => run(&mut dec),
        };
        let (rb, _) = run(&mut b);
        out.evals += 1;
        cov.inc("observation_verdict", ra.verdict.is_ok() as u32);
        if syms > 0 {
            out.nontrivial.push(case_hash(&[y, &x]));
        }
        if !ra.same(&rb) {
            out.violate(
                if ra.verdict.is_abnormal() { format!("C14/lzma/{}", verdict_sig(&ra.verdict)) } else { "C14/lzma/reset-differs-from-new".to_string() },
                format!(
                    "lc{} lp{} pb{}: after a history that returns {} to its initial value while other probabilities are dirty, reset({:?}) leaves a decoder that differs from a new one: reset decoder: {}; fresh decoder: {}",
                    props.lc, props.lp, props.pb,
                    if variant == 0 { "literal context 0" } else { "is_match[0][0]" },
                    arg, ra.short(), rb.short()
                ),
                J::obj().set("x_hex", J::s(crate::util::hex_trunc(&x, 2048))).set("y_hex", J::s(crate::util::hex_trunc(y, 2048))),
            );
            return out;
        }
    }
    out.sample = Some(J::obj().set("decoder", J::s("LzmaDecoder")).set("props", J::s(format!("{:?}", props))).set("history", J::s(format!("part-returning history variant {} ({} symbols), reset({:?}), y", variant, prog.len(), arg))));
    out
}

fn label(group: &str, i: u32) -> String {
    match group {
        "op" => OPS[i as usize].to_string(),
        "history_decompress_verdict" | "observation_verdict" => ["Err", "Ok"][i as usize].to_string(),
        "returning_variant" => ["literal context 0 returns to 0x400", "is_match[0][0] returns to 0x400"][i as usize].to_string(),
        "returning_lit_depth" => format!("tree depth {}", i),
        _ => std_label(group, i),
    }
}

fn floors(_: Tier, cov: &Cov) -> Vec<String> {
    let mut m = Vec::new();
    if cov.group_nonzero("op") < 6 || cov.group_nonzero("history_decompress_verdict") < 2 || cov.group_nonzero("observation_verdict") < 2 {
        m.push("operation kinds / verdict classes incomplete".into());
    }
    if cov.group_nonzero("returning_variant") < 2 || cov.get_named("returning.literal_context0_fully_clean_others_dirty") == 0 {
        m.push("part-returning histories incomplete".into());
    }
    if cov.get_named("debug_state_identical_after_reset") == 0 {
        m.push("Debug witness never compared equal".into());
    }
    m
}

pub fn monitor(tier: Tier) -> Monitor {
    Monitor {
        id: "C14",
        level: "exploration",
        rule: "cases = histories new; (decompress(valid | truncated | corrupt | wrong size) | reset(None) | reset(Some(size)))*; reset(arg); decompress(y) for raw LzmaDecoder (all lc/lp/pb, dict 64 / 4096 / 64 KiB) and Lzma2Decoder (streams that change properties and end on lc+lp != 0; y sometimes starts with a chunk that carries no properties, so it exposes the decoder's initial properties), 1..12 (thorough 200) reuse cycles per history; after every reset the decode of y is compared - verdict incl. error text, bytes, consumed count - with a freshly constructed decoder given the size in effect (3-line model: reset(None) keeps it); a digest of the whole adaptive state (hook) is compared after EVERY reset, and when it differs the recorded history is replayed on new decoders against up to 44 follow-up streams to find one that tells the two apart; family part_returning: histories constructed so that the cells every decode touches first (literal context 0 down to a chosen tree depth, or is_match[0][0]) return exactly to their initial value through the 6/8-step return cycles of the probability update while other cells are dirty (precondition confirmed on the reference model), then reset and compare as above; evaluations = observations; non-trivial = the reset decoder decoded >= 1 symbol",
        assumptions: vec![
            "both runs use identical reader and sink types and the code is deterministic, so every observable must agree".into(),
            "a Debug-output difference alone is recorded as a warning (a behaviourally irrelevant cache would be legal)".into(),
        ],
        families: vec![
            Family { name: "lzma", count: tier.pick(25_000, 400_000), priority: false, enumerated: false, run: fam_lzma },
            Family { name: "lzma2", count: tier.pick(15_000, 250_000), priority: false, enumerated: false, run: fam_lzma2 },
            Family { name: "part_returning", count: tier.pick(1_500, 30_000), priority: false, enumerated: false, run: fam_returning },
        ],
        label,
        floors,
        summarize: no_summary,
    }
}

//! Helpers shared by the monitors.

use crate::liblzma as ll;
use crate::refmodel::lzma::{encode_program, Props, SymRecord};
use crate::refmodel::program::{interpret, InterpStop, Sym};
use crate::runner::{CaseOut, Cov};
use crate::sut::{Obs, Verdict};
use crate::util::{fnv, hex_trunc, J};

pub fn all_props() -> Vec<Props> {
    let mut v = Vec::with_capacity(225);
    for pb in 0..=4 {
        for lp in 0..=4 {
            for lc in 0..=8 {
                v.push(Props::new(lc, lp, pb));
            }
        }
    }
    v
}

pub fn props_l2_ok(p: &Props) -> bool {
    p.lc + p.lp <= 4
}

#[derive(Clone, Debug)]
pub struct Encoded {
    pub props: Props,
    pub prog: Vec<Sym>,
    pub payload: Vec<u8>,
    pub table: Vec<SymRecord>,
    /// bytes the format defines
    pub output: Vec<u8>,
    pub has_marker: bool,
}

/// Encode a valid program; None (harness error recorded) when the program is
/// not valid, which would be a generator bug.
pub fn encode_valid(prog: &[Sym], props: Props, out: &mut CaseOut) -> Option<Encoded> {
    let (expect, stop) = interpret(prog);
    let has_marker = matches!(stop, InterpStop::Eos(i) if i + 1 == prog.len());
    if !(matches!(stop, InterpStop::Done) || has_marker) {
        out.harness_error(format!("generator produced an invalid program: {:?}", stop));
        return None;
    }
    match encode_program(prog, props) {
        Ok((payload, table, hist)) => {
            if hist != expect {
                out.harness_error("RefEncoder history differs from interpret()");
                return None;
            }
            Some(Encoded {
                props,
                prog: prog.to_vec(),
                payload,
                table,
                output: expect,
                has_marker,
            })
        }
        Err(e) => {
            out.harness_error(format!("RefEncoder refused a valid program: {:?}", e));
            None
        }
    }
}

/// dictionary sizes liblzma's .lzma decoder accepts: 2^n or 2^n + 2^(n-1)
pub fn liblzma_dict_for(min: u64) -> u32 {
    let mut d: u64 = 4096;
    while d < min {
        d <<= 1;
    }
    d.min(1 << 31) as u32
}

/// Ask liblzma what a .lzma payload decodes to.
/// Returns Some(Ok(bytes)) / Some(Err(code)) or None if liblzma cannot judge.
pub fn liblzma_judge_lzma(
    props: Props,
    payload: &[u8],
    size: Option<u64>,
    min_dict: u64,
) -> Option<Result<Vec<u8>, i32>> {
    if props.lc + props.lp > 4 || min_dict > (1 << 30) {
        return None;
    }
    let mut file = vec![props.byte()];
    file.extend_from_slice(&liblzma_dict_for(min_dict).to_le_bytes());
    file.extend_from_slice(&size.unwrap_or(u64::MAX).to_le_bytes());
    file.extend_from_slice(payload);
    let d = ll::alone_decode(&file);
    if d.ok() && d.total_in as usize == file.len() {
        Some(Ok(d.out))
    } else if d.ok() {
        // stream ended before the end of the input (trailing bytes)
        Some(Err(-1))
    } else {
        Some(Err(d.ret))
    }
}

pub fn first_diff(a: &[u8], b: &[u8]) -> usize {
    let n = a.len().min(b.len());
    for i in 0..n {
        if a[i] != b[i] {
            return i;
        }
    }
    n
}

/// Which symbol produced output offset `off`.
pub fn sym_at_offset(table: &[SymRecord], off: u64) -> usize {
    table.iter().position(|r| r.produced > off).unwrap_or(table.len())
}

pub fn describe_mismatch(expected: &[u8], got: &[u8]) -> String {
    let d = first_diff(expected, got);
    format!(
        "expected {} bytes, got {} bytes, first difference at offset {} (expected {} got {})",
        expected.len(),
        got.len(),
        d,
        hex_trunc(&expected[d.min(expected.len())..], 8),
        hex_trunc(&got[d.min(got.len())..], 8)
    )
}

pub fn verdict_sig(v: &Verdict) -> String {
    match v {
        Verdict::Ok => "ok".into(),
        Verdict::Err(_) => format!("err:{}", v.class()),
        Verdict::Panic(m, l) => format!("panic:{}:{}", strip_repo(l), digits_out(m)),
        Verdict::TickOverrun(_) => "non-termination(tick budget)".into(),
    }
}

/// panic location reduced to the file (line numbers move with unrelated edits)
pub fn strip_repo(l: &str) -> String {
    // keep the path from `src/` on, wherever the checkout lives
    let l = match l.find("/src/") {
        Some(i) => &l[i + 1..],
        None => l,
    };
    match l.rfind(':') {
        Some(i) if l[i + 1..].chars().all(|c| c.is_ascii_digit()) => l[..i].to_string(),
        _ => l.to_string(),
    }
}

pub fn digits_out(s: &str) -> String {
    let mut out = String::new();
    let mut prev_digit = false;
    for c in s.chars() {
        if c.is_ascii_digit() {
            if !prev_digit {
                out.push('#');
            }
            prev_digit = true;
        } else {
            out.push(c);
            prev_digit = false;
        }
    }
    out.chars().take(80).collect()
}

/// Add decoder-side observed coverage to the table.
pub fn cov_from_obs(cov: &mut Cov, o: &Obs) {
    for s in 0..12 {
        for k in 0..8 {
            cov.add("cell", (s * 8 + k) as u32, o.cells[s][k]);
        }
    }
    for i in 0..3 {
        cov.add("len_class", i as u32, o.len_class[i]);
    }
    for i in 0..6 {
        cov.add("len_edge", i as u32, o.len_edges[i]);
    }
    for i in 0..64 {
        cov.add("dist_slot", i as u32, o.slots[i]);
    }
    if o.pb.is_some() {
        for st in 0..12 {
            for ps in 0..16 {
                cov.add("ctx_is_match", (st * 16 + ps) as u32, o.ctx_is_match[st][ps] as u64);
            }
        }
        for c in 0..2 {
            for cl in 0..3 {
                for ps in 0..16 {
                    cov.add("ctx_len", (c * 48 + cl * 16 + ps) as u32, o.ctx_len[c][cl][ps] as u64);
                }
            }
        }
        for ls in 0..4 {
            for sl in 0..64 {
                cov.add("ctx_slot", (ls * 64 + sl) as u32, o.ctx_slot[ls][sl] as u64);
            }
        }
    }
    cov.name("symbols_decoded", o.syms);
    cov.name("win.copies", o.lz_copies);
    cov.name("win.src_straddle", o.src_straddle);
    cov.name("win.dst_straddle", o.dst_straddle);
    cov.name("win.dist_eq_dict", o.dist_eq_dict);
    cov.name("win.overlap_copies", o.overlap_copies);
    cov.name("win.second_lap_copies", o.second_lap_copies);
    cov.name("win.flushes", o.win_flushes);
    cov.max("win_buf", o.win_max as u64);
    for i in 0..6 {
        cov.add("chunk_class", i as u32, o.chunk_class[i]);
        for j in 0..6 {
            cov.add("chunk_trans", (i * 6 + j) as u32, o.chunk_trans[i][j]);
        }
    }
    cov.name("accum.resets", o.accum_resets);
    cov.name("accum.copies", o.accum_copies);
    cov.max("chunk_unpacked", o.chunk_max_unpacked);
    cov.max("chunk_packed", o.chunk_max_packed);
    cov.name("ticks", o.ticks);
}

pub const KIND_NAMES: [&str; 8] = ["lit", "match", "shortrep", "rep0", "rep1", "rep2", "rep3", "eos"];
pub const LEN_CLASS_NAMES: [&str; 3] = ["2-9", "10-17", "18-273"];
pub const LEN_EDGE_NAMES: [&str; 6] = ["2", "9", "10", "17", "18", "273"];

pub fn std_label(group: &str, i: u32) -> String {
    match group {
        "cell" => format!("s{}.{}", i / 8, KIND_NAMES[(i % 8) as usize]),
        "len_class" => LEN_CLASS_NAMES[i as usize].to_string(),
        "len_edge" => LEN_EDGE_NAMES[i as usize].to_string(),
        "dist_slot" => format!("slot{}", i),
        "chunk_class" => crate::refmodel::lzma2::CLASS_NAMES[i as usize].to_string(),
        "chunk_trans" => format!(
            "{}->{}",
            crate::refmodel::lzma2::CLASS_NAMES[(i / 6) as usize],
            crate::refmodel::lzma2::CLASS_NAMES[(i % 6) as usize]
        ),
        "ctx_is_match" => format!("state{}.pos_state{}", i / 16, i % 16),
        "ctx_len" => format!("{}.{}.pos_state{}", ["match", "rep"][(i / 48) as usize], LEN_CLASS_NAMES[((i / 16) % 3) as usize], i % 16),
        "ctx_slot" => format!("len_state{}.slot{}", i / 64, i % 64),
        "props" => {
            let p = &all_props()[i as usize];
            format!("lc{}lp{}pb{}", p.lc, p.lp, p.pb)
        }
        _ => i.to_string(),
    }
}

pub fn case_hash(parts: &[&[u8]]) -> u64 {
    let mut h = 0u64;
    for p in parts {
        h = crate::util::mix(h, fnv(p));
    }
    h
}

pub fn sample_json(desc: &str, input: &[u8], extra: J) -> J {
    J::obj()
        .set("what", J::s(desc))
        .set("input_len", J::i(input.len()))
        .set("input_hex", J::s(hex_trunc(input, 64)))
        .set("detail", extra)
}

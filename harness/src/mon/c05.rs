//! C05 - Streaming decoder equals one-shot decoder under every chunking.

use super::c08;
use super::common::*;
use super::streamdrv::{self, DriveOpts};
use crate::gen::io::{ReaderKind, SharedSink};
use crate::gen::prog::structured_data;
use crate::liblzma as ll;
use crate::refmodel::lzma::{encode_program, Props, SymRecord};
use crate::refmodel::program::{Interp, Sym};
use crate::runner::*;
use crate::sut::{self, Entry, Verdict};
use crate::util::{Rng, J};
use lzma_rs::decompress::{Options, UnpackedSize};

pub struct Input {
    pub file: Vec<u8>,
    pub options: Options,
    pub desc: String,
    pub kind: usize,
    /// input offsets at which a symbol ends (absolute, incl. header), if known
    pub boundaries: Vec<usize>,
}

pub const KINDS: [&str; 8] = [
    "table cell (valid / wrong size / trailing / truncated; all options)",
    "bit-flipped",
    "liblzma stream",
    "dumb-encoder stream",
    "garbage behind a valid header",
    "expensive symbols (probabilities driven to the floor)",
    "header only / shorter",
    "spliced streams",
];

/// A program whose symbols cost many input bytes: long runs drive the
/// probabilities to their limits, then the improbable alternative is coded.
pub fn expensive_program(rng: &mut Rng) -> (Vec<Sym>, Props) {
    let props = Props::new(0, 0, 0);
    let mut it = Interp::new();
    let mut prog = Vec::new();
    let push = |s: Sym, it: &mut Interp, prog: &mut Vec<Sym>| {
        it.step(&s);
        prog.push(s);
    };
    let rounds = rng.range(2, 5);
    for _ in 0..rounds {
        let base = rng.byte();
        for _ in 0..rng.range(150, 400) {
            push(Sym::Lit(base), &mut it, &mut prog);
        }
        // improbable literal bits
        push(Sym::Lit(!base), &mut it, &mut prog);
        for _ in 0..rng.range(150, 300) {
            push(Sym::Lit(base), &mut it, &mut prog);
        }
        // improbable is_match + long length + far distance
        let n = it.hist.len() as u32;
        push(Sym::Match { dist: n - rng.below(3) as u32, len: rng.range(18, 273) as u32 }, &mut it, &mut prog);
        for _ in 0..rng.range(100, 200) {
            push(Sym::Match { dist: 1, len: 2 }, &mut it, &mut prog);
        }
        // improbable kinds after a run of matches
        match rng.below(4) {
            0 => push(Sym::ShortRep, &mut it, &mut prog),
            1 => push(Sym::Rep { idx: 3, len: rng.range(18, 273) as u32 }, &mut it, &mut prog),
            2 => push(Sym::Lit(rng.byte()), &mut it, &mut prog),
            _ => push(Sym::Rep { idx: 2, len: 273 }, &mut it, &mut prog),
        }
    }
    (prog, props)
}

fn boundaries_of(hdr: usize, table: &[SymRecord]) -> Vec<usize> {
    table.iter().map(|r| hdr + r.consumed as usize).collect()
}

/// Inputs as below; a quarter of them additionally carry a memory limit (a decode option like
/// the others: the two decoders must agree under it, whether it is generous, just enough,
/// between the output size and the announced dictionary size, or too small).
pub fn gen_input(rng: &mut Rng, tier: Tier, max_len: usize) -> Option<Input> {
    let mut inp = gen_input_plain(rng, tier, max_len)?;
    if rng.chance(1, 4) {
        let m = match rng.below(8) {
            0 => 0,
            1 => rng.range(1, 300) as usize,
            2 => *rng.pick(&[4095usize, 4096, 4097]),
            3 => rng.range(300, 70_000) as usize,
            4 => 1 << 20,
            5 => (1 << 23) - 1,
            6 => usize::MAX,
            _ => rng.range(1, 5000) as usize,
        };
        inp.options.memlimit = Some(m);
        inp.desc = format!("{} | memlimit {}", inp.desc, m);
    }
    Some(inp)
}

fn gen_input_plain(rng: &mut Rng, tier: Tier, max_len: usize) -> Option<Input> {
    let kind = rng.weighted(&[40, 12, 8, 6, 6, 10, 4, 4]);
    match kind {
        0 | 1 | 7 => {
            let b = c08::build(rng, tier)?;
            let mut file = b.file;
            let mut desc = b.desc;
            if kind == 1 && file.len() > 1 {
                let p = rng.usize_below(file.len());
                let bit = rng.below(8);
                file[p] ^= 1 << bit;
                desc = format!("{} | bit {} of byte {} flipped", desc, bit, p);
            }
            if kind == 7 {
                let b2 = c08::build(rng, tier)?;
                let cut1 = rng.usize_below(file.len() + 1);
                let cut2 = rng.usize_below(b2.file.len() + 1);
                file.truncate(cut1);
                file.extend_from_slice(&b2.file[cut2..]);
                desc = format!("{} | spliced at {} with tail of another stream", desc, cut1);
            }
            if file.len() > max_len {
                return None;
            }
            Some(Input { file, options: b.options, desc, kind, boundaries: vec![] })
        }
        2 => {
            let n = rng.range(0, (max_len * 3) as u64) as usize;
            let plain = structured_data(rng, n);
            let p = crate::gen::l2gen::random_props_l2(rng);
            let eo = ll::EncOpts { lc: p.lc, lp: p.lp, pb: p.pb, dict_size: 4096, ..Default::default() };
            let file = ll::alone_encode(&plain, &eo)?;
            if file.len() > max_len {
                return None;
            }
            Some(Input { file, options: sut::default_options(), desc: format!("liblzma .lzma of {} bytes", n), kind, boundaries: vec![] })
        }
        3 => {
            let n = rng.range(0, (max_len as u64).min(3000)) as usize;
            let plain = if rng.chance(1, 2) { rng.bytes(n) } else { structured_data(rng, n) };
            let mut out = Vec::new();
            let which = rng.below(3);
            let co = lzma_rs::compress::Options {
                unpacked_size: match which {
                    0 => lzma_rs::compress::UnpackedSize::WriteToHeader(None),
                    1 => lzma_rs::compress::UnpackedSize::WriteToHeader(Some(n as u64)),
                    _ => lzma_rs::compress::UnpackedSize::SkipWritingToHeader,
                },
            };
            lzma_rs::lzma_compress_with_options(&mut &plain[..], &mut out, &co).ok()?;
            if out.len() > max_len {
                return None;
            }
            let us = if which == 2 { UnpackedSize::UseProvided(Some(n as u64)) } else { UnpackedSize::ReadFromHeader };
            Some(Input { file: out, options: sut::opts(us, None, false), desc: format!("lzma_compress output of {} bytes, option {}", n, which), kind, boundaries: vec![] })
        }
        4 => {
            let props = Props::new(rng.below(9) as u32, rng.below(5) as u32, rng.below(5) as u32);
            let size = match rng.below(3) {
                0 => None,
                1 => Some(rng.range(0, 200)),
                _ => Some(rng.next()),
            };
            let mut file = sut::lzma_header(props.byte(), rng.next() as u32, Some(size));
            let n = rng.range(0, (max_len.saturating_sub(13)).min(200) as u64) as usize;
            let mut tail = rng.bytes(n);
            if !tail.is_empty() && rng.chance(1, 2) {
                tail[0] = 0;
            }
            file.extend_from_slice(&tail);
            Some(Input { file, options: sut::default_options(), desc: format!("valid header (size {:?}) + {} random bytes", size, n), kind, boundaries: vec![] })
        }
        5 => {
            let (mut prog, props) = if rng.chance(1, 2) && max_len >= 2_000 {
                (crate::gen::prog::floor_program(rng, 31), Props::new(0, 0, 0))
            } else {
                expensive_program(rng)
            };
            let with_marker = rng.chance(1, 2);
            if with_marker {
                prog.push(Sym::Eos);
            }
            let (payload, table, hist) = encode_program(&prog, props).ok()?;
            let mut file = sut::lzma_header(props.byte(), 1 << 20, Some(if with_marker { None } else { Some(hist.len() as u64) }));
            let b = boundaries_of(file.len(), &table);
            file.extend_from_slice(&payload);
            if file.len() > max_len {
                return None;
            }
            Some(Input { file, options: sut::default_options(), desc: format!("expensive-symbol program, {} symbols, marker {}", prog.len(), with_marker), kind, boundaries: b })
        }
        _ => {
            // header only, or even shorter; every option
            let b = c08::build(rng, tier)?;
            let n = rng.usize_below(b.hdr_len + 7).min(b.file.len());
            let file = b.file[..n].to_vec();
            Some(Input { file, options: b.options, desc: format!("first {} bytes of: {}", n, b.desc), kind: 6, boundaries: vec![] })
        }
    }
}

pub struct OneShot {
    pub verdict: Verdict,
    pub out: Vec<u8>,
}

pub fn oneshot(inp: &Input) -> OneShot {
    let sink = SharedSink::new();
    let obs = sut::new_obs(u64::MAX);
    let c = sut::decode(Entry::Lzma, &inp.file, &inp.options, ReaderKind::Slice, &sink, &obs);
    OneShot { verdict: c.verdict, out: sink.bytes() }
}

/// Compare one streaming history with the one-shot result. Returns true if equal.
#[allow(clippy::too_many_arguments)]
pub fn compare(
    out: &mut CaseOut,
    cov: &mut Cov,
    ctx: &CaseCtx,
    inp: &Input,
    os: &OneShot,
    cuts: &[usize],
    d: &DriveOpts,
    chunking: &str,
) -> bool {
    let sink = SharedSink::new();
    let obs = sut::new_obs(u64::MAX);
    let run = streamdrv::drive(&inp.file, &inp.options, cuts, d, &sink, &obs);
    out.evals += 1;
    for (_, s, _) in &run.snaps {
        cov.add("partial_buf_fill", s.partial_len as u32, 1);
        cov.add("header_tmp_fill", s.tmp_len as u32, 1);
        cov.add("phase_after_write", s.phase as u32, 1);
    }
    let data = || {
        J::obj()
            .set("input_hex", J::s(crate::util::hex_trunc(&inp.file, 4096)))
            .set("input", J::s(inp.desc.as_str()))
            .set("options", J::s(format!("{:?}", inp.options)))
            .set("cuts", J::s(format!("{:?}", &cuts[..cuts.len().min(64)])))
            .set("chunking", J::s(chunking))
    };
    let cutdesc = format!("{} cuts {:?}{}", chunking, &cuts[..cuts.len().min(12)], if cuts.len() > 12 { "..." } else { "" });
    if run.verdict.is_abnormal() {
        out.violate(
            format!("C05/stream/{}", verdict_sig(&run.verdict)),
            format!("stream: {} [{}; {}]", run.verdict.short(), inp.desc, cutdesc),
            data(),
        );
        return false;
    }
    if os.verdict.is_abnormal() {
        // one-shot panics are C07's findings; nothing to compare against
        return true;
    }
    if inp.file.is_empty() {
        if !(run.verdict.is_ok() && run.out.is_empty()) {
            out.violate("C05/empty-input", format!("zero total input: {} with {} bytes", run.verdict.short(), run.out.len()), data());
            return false;
        }
        return true;
    }
    if run.stalled {
        out.violate(
            "C05/stream/write-returned-0-before-completion",
            format!("a write returned Ok(0) for a non-empty piece although the declared size was not reached [{}; {}]", inp.desc, cutdesc),
            data(),
        );
        return false;
    }
    let same_verdict = run.verdict.is_ok() == os.verdict.is_ok();
    if !same_verdict {
        let sig = if os.verdict.is_ok() { "C05/stream-rejects-what-oneshot-accepts" } else { "C05/stream-accepts-what-oneshot-rejects" };
        out.violate(
            format!("{}/{}", sig, KINDS[inp.kind]),
            format!(
                "one-shot: {} ({} bytes); stream: {} ({} bytes) [{}; {}]",
                os.verdict.short(), os.out.len(), run.verdict.short(), run.out.len(), inp.desc, cutdesc
            ),
            data(),
        );
        return false;
    }
    if run.verdict.is_ok() && run.out != os.out {
        out.violate(
            format!("C05/different-output/{}", KINDS[inp.kind]),
            format!("both succeed but outputs differ: {} [{}; {}]", describe_mismatch(&os.out, &run.out), inp.desc, cutdesc),
            data(),
        );
        return false;
    }
    if ctx.verbose {
        ctx.say(format!("{} -> stream {} / one-shot {}", cutdesc, run.verdict.short(), os.verdict.short()));
    }
    true
}

fn note_input(cov: &mut Cov, inp: &Input, os: &OneShot) {
    cov.inc("input_kind", inp.kind as u32);
    cov.inc("oneshot_verdict", os.verdict.is_ok() as u32);
    cov.inc("option", match inp.options.unpacked_size {
        UnpackedSize::ReadFromHeader => 0,
        UnpackedSize::ReadHeaderButUseProvided(None) => 1,
        UnpackedSize::ReadHeaderButUseProvided(Some(_)) => 2,
        UnpackedSize::UseProvided(None) => 3,
        UnpackedSize::UseProvided(Some(_)) => 4,
    });
    if !inp.boundaries.is_empty() && os.verdict.is_ok() {
        let mut prev = inp.boundaries[0];
        let mut mx = 0;
        for &b in &inp.boundaries[1..] {
            mx = mx.max(b - prev);
            prev = b;
        }
        cov.max("input_bytes_of_one_symbol", mx as u64);
    }
}

/// inputs <= 64 bytes: every single cut and every pair of cuts
fn fam_small(ctx: &CaseCtx, cov: &mut Cov) -> CaseOut {
    let mut out = CaseOut::default();
    let mut rng = ctx.rng();
    let inp = loop {
        if let Some(i) = gen_input(&mut rng, Tier::Quick, 64) {
            break i;
        }
    };
    let os = oneshot(&inp);
    note_input(cov, &inp, &os);
    let n = inp.file.len();
    let d = DriveOpts::default();
    let mut ok = compare(&mut out, cov, ctx, &inp, &os, &[], &d, "whole");
    'outer: for a in 0..=n {
        if !ok {
            break;
        }
        ok = compare(&mut out, cov, ctx, &inp, &os, &[a], &d, "single");
        for b in a..=n {
            if !ok {
                break 'outer;
            }
            ok = compare(&mut out, cov, ctx, &inp, &os, &[a, b], &d, "pair");
        }
    }
    cov.name("inputs_with_all_single_and_pair_cuts", 1);
    // thorough: all triples of cuts for very short inputs
    if ctx.tier == Tier::Thorough && n <= 26 && ok {
        'tri: for a in 0..=n {
            for b in a..=n {
                for c in b..=n {
                    if !compare(&mut out, cov, ctx, &inp, &os, &[a, b, c], &d, "triple") {
                        break 'tri;
                    }
                }
            }
        }
        cov.name("inputs_with_all_triple_cuts", 1);
    }
    out.nontrivial.push(case_hash(&[&inp.file, format!("{:?}", inp.options).as_bytes(), b"small"]));
    out.sample = Some(J::obj().set("input", J::s(inp.desc.as_str())).set("len", J::i(n)).set("oneshot", J::s(os.verdict.short())).set("chunkings", J::s("all single cuts and all pairs")));
    out
}

/// inputs <= 4 KiB: every single cut (quick: all cuts up to 700 bytes, else sampled
/// plus every symbol boundary +-1)
fn fam_medium(ctx: &CaseCtx, cov: &mut Cov) -> CaseOut {
    let mut out = CaseOut::default();
    let mut rng = ctx.rng();
    let inp = loop {
        if let Some(i) = gen_input(&mut rng, ctx.tier, 4096) {
            break i;
        }
    };
    let os = oneshot(&inp);
    note_input(cov, &inp, &os);
    let n = inp.file.len();
    let d = DriveOpts::default();
    let all = n <= ctx.tier.pick(700, 4096);
    let mut cuts: Vec<usize> = if all { (0..=n).collect() } else { (0..400).map(|_| rng.usize_below(n + 1)).collect() };
    for &b in &inp.boundaries {
        cuts.extend_from_slice(&[b.saturating_sub(1), b, (b + 1).min(n)]);
    }
    cuts.sort();
    cuts.dedup();
    if all {
        cov.name("inputs_with_every_single_cut", 1);
    }
    for c in cuts {
        if !compare(&mut out, cov, ctx, &inp, &os, &[c], &d, "single") {
            break;
        }
    }
    out.nontrivial.push(case_hash(&[&inp.file, format!("{:?}", inp.options).as_bytes(), b"medium"]));
    out.sample = Some(J::obj().set("input", J::s(inp.desc.as_str())).set("len", J::i(n)).set("oneshot", J::s(os.verdict.short())));
    out
}

/// Streams over a 4096-byte dictionary whose output wraps the circular window
/// one to three times and whose copies and matched literals read the window at
/// its edges (slots 0, 1, 2, dict-2, dict-1 and random ones; distances incl.
/// exactly the dictionary size), with every single cut: each symbol is then
/// looked at by the dry run (the bounded look-ahead that decides whether a
/// symbol can be decoded from the bytes at hand) at every offset.
fn fam_wrapped(ctx: &CaseCtx, cov: &mut Cov) -> CaseOut {
    let mut out = CaseOut::default();
    let mut rng = ctx.rng();
    const D: u64 = 4096;
    let props = if rng.chance(1, 2) { Props::new(0, 0, 0) } else { crate::gen::l2gen::random_props_l2(&mut rng) };
    let mut it = Interp::new();
    let mut prog: Vec<Sym> = Vec::new();
    let push = |s: Sym, it: &mut Interp, prog: &mut Vec<Sym>| {
        it.step(&s);
        prog.push(s);
    };
    for _ in 0..rng.range(8, 120) {
        push(Sym::Lit(rng.byte()), &mut it, &mut prog);
    }
    let slots = [0u64, 1, 2, D - 2, D - 1];
    let specials = rng.range(6, 28);
    let mut edge_reads = 0u64;
    for k in 0..specials {
        // fill up to the next target position with long copies
        let target = if k == 0 { D * rng.range(1, 3) + rng.below(D) } else { it.hist.len() as u64 + rng.range(0, 500) };
        while (it.hist.len() as u64) < target {
            let n = it.hist.len() as u64;
            let len = (target - n).min(273);
            if len < 2 {
                push(Sym::Lit(rng.byte()), &mut it, &mut prog);
            } else {
                let dist = rng.range(1, n.min(D)) as u32;
                push(Sym::Match { dist, len: len as u32 }, &mut it, &mut prog);
            }
        }
        // a copy, then a literal coded against the byte at distance rep0: choose the distance so
        // that this byte (or the start of the copy) sits in a chosen slot of the circular window
        let len = rng.range(2, 40);
        let pos_after = it.hist.len() as u64 + len;
        let slot = if rng.chance(3, 4) { *rng.pick(&slots) } else { rng.below(D) };
        let anchor = if rng.chance(2, 3) { pos_after } else { it.hist.len() as u64 };
        let mut dist = (anchor + D - slot) % D;
        if dist == 0 {
            dist = D;
        }
        if dist > it.hist.len() as u64 {
            continue;
        }
        push(Sym::Match { dist: dist as u32, len: len as u32 }, &mut it, &mut prog);
        edge_reads += 1;
        match rng.below(4) {
            0 => push(Sym::ShortRep, &mut it, &mut prog),
            1 => push(Sym::Rep { idx: 0, len: rng.range(2, 20) as u32 }, &mut it, &mut prog),
            _ => {}
        }
        push(Sym::Lit(rng.byte()), &mut it, &mut prog);
        for _ in 0..rng.range(0, 3) {
            push(Sym::Lit(rng.byte()), &mut it, &mut prog);
        }
    }
    let with_marker = rng.chance(1, 2);
    if with_marker {
        prog.push(Sym::Eos);
    }
    let (payload, table, hist) = match encode_program(&prog, props) {
        Ok(x) => x,
        Err(e) => {
            out.harness_error(format!("encode: {:?}", e));
            return out;
        }
    };
    let mut file = sut::lzma_header(props.byte(), *rng.pick(&[4096u32, 0, 100]), Some(if with_marker { None } else { Some(hist.len() as u64) }));
    let b = boundaries_of(file.len(), &table);
    file.extend_from_slice(&payload);
    let inp = Input { file, options: sut::default_options(), desc: format!("window-edge program: {} symbols, {} output bytes over a 4096-byte window, marker {}", prog.len(), hist.len(), with_marker), kind: 5, boundaries: b };
    let os = oneshot(&inp);
    if !(os.verdict.is_ok() && os.out == hist) {
        out.harness_error(format!("one-shot decoder does not decode the constructed stream: {}", os.verdict.short()));
        return out;
    }
    note_input(cov, &inp, &os);
    cov.name("wrapped.copies_or_matched_literals_reading_a_window_edge", edge_reads);
    cov.max("wrapped.window_laps", hist.len() as u64 / D);
    let n = inp.file.len();
    let d = DriveOpts::default();
    for c in 0..=n {
        if !compare(&mut out, cov, ctx, &inp, &os, &[c], &d, "single") {
            break;
        }
    }
    // an earlier cut that leaves bytes in the carry-over buffer, then every later cut nearby
    for _ in 0..ctx.tier.pick(3, 20) {
        let c1 = rng.usize_below(n + 1);
        for c2 in c1..=(c1 + 24).min(n) {
            if !compare(&mut out, cov, ctx, &inp, &os, &[c1, c2], &d, "pair") {
                break;
            }
        }
    }
    cov.name("inputs_with_every_single_cut", 1);
    out.nontrivial.push(case_hash(&[&inp.file, b"wrapped"]));
    out.sample = Some(J::obj().set("input", J::s(inp.desc.as_str())).set("len", J::i(n)).set("oneshot", J::s(os.verdict.short())));
    out
}

/// A stream whose last match costs 19 input bytes (the most a valid stream reaches
/// with a 17 MiB history), cut at every position around that symbol, alone and
/// after an earlier cut that leaves bytes in the carry-over buffer.
fn fam_max_cost(ctx: &CaseCtx, cov: &mut Cov) -> CaseOut {
    let mut out = CaseOut::default();
    let mut rng = ctx.rng();
    // whether the symbol straddles 19 or only 18 input bytes depends on where the range coder
    // happens to stand: construct again (new literals, other slot) until it is 19
    let mut built = None;
    for attempt in 0..8 {
        let slot = *rng.pick(&[41u32, 47]);
        let mut prog = crate::gen::prog::floor_program(&mut rng, slot);
        let with_marker = rng.chance(1, 2);
        if with_marker {
            prog.push(Sym::Eos);
        }
        let props = Props::new(0, 0, 0);
        let (payload, table, hist) = match encode_program(&prog, props) {
            Ok(x) => x,
            Err(e) => {
                out.harness_error(format!("{:?}", e));
                return out;
            }
        };
        let mut file = sut::lzma_header(props.byte(), 1 << 25, Some(if with_marker { None } else { Some(hist.len() as u64) }));
        let hdr = file.len();
        file.extend_from_slice(&payload);
        let boundaries = boundaries_of(hdr, &table);
        let ei = prog.len() - 4 - with_marker as usize;
        let cost = boundaries[ei] - boundaries[ei - 1];
        let inp = Input { file, options: sut::default_options(), desc: format!("floor program for distance slot {}: {} symbols, {} output bytes, marker {}", slot, prog.len(), hist.len(), with_marker), kind: 5, boundaries: boundaries.clone() };
        let done = cost >= 19 || attempt == 7;
        built = Some((prog, with_marker, boundaries, inp));
        if done {
            cov.max("max_cost_construction_attempts", attempt + 1);
            break;
        }
    }
    let (prog, with_marker, boundaries, inp) = built.unwrap();
    let os = oneshot(&inp);
    note_input(cov, &inp, &os);
    if !os.verdict.is_ok() {
        out.harness_error(format!("one-shot decoder rejects the constructed stream: {}", os.verdict.short()));
        return out;
    }
    // the expensive symbol is the 4th from the end (before three literals [+ marker])
    let ei = prog.len() - 4 - with_marker as usize;
    let start = boundaries[ei - 1];
    let end = boundaries[ei];
    cov.max("max_cost_symbol_bytes", (end - start) as u64);
    let d = DriveOpts::default();
    let n = inp.file.len();
    let lo = start.saturating_sub(3);
    let hi = (end + 3).min(n);
    for c in lo..=hi {
        if !compare(&mut out, cov, ctx, &inp, &os, &[c], &d, "single cut around the 19-byte symbol") {
            return out;
        }
    }
    let earlier = ctx.tier.pick(3, 30);
    for k in 0..earlier {
        // an earlier cut inside some previous symbol leaves bytes in the carry-over buffer
        let c0 = if k % 2 == 0 { start.saturating_sub(1 + k as usize) } else { boundaries[ei.saturating_sub(2 + k as usize)] + 1 };
        for c in (start + 1)..=hi.min(start + 22) {
            if c0 < c && !compare(&mut out, cov, ctx, &inp, &os, &[c0, c], &d, "earlier cut + cut inside the 19-byte symbol") {
                return out;
            }
        }
    }
    out.nontrivial.push(case_hash(&[&inp.file, b"maxcost"]));
    out.sample = Some(J::obj().set("input", J::s(inp.desc.as_str())).set("len", J::i(n)).set("expensive_symbol_bytes", J::i(end - start)));
    out
}

const PATTERNS: [&str; 8] = [
    "constant piece size 1..24",
    "sizes from {0,1,2,3,12,13,17,18,19,20,21}",
    "random cuts",
    "empty writes interleaved",
    "flush after every piece",
    "write_all per piece",
    "symbol boundary +-1",
    "header split + rest whole",
];

fn fam_patterns(ctx: &CaseCtx, cov: &mut Cov) -> CaseOut {
    let mut out = CaseOut::default();
    let mut rng = ctx.rng();
    let inp = loop {
        if let Some(i) = gen_input(&mut rng, ctx.tier, ctx.tier.pick(20_000, 200_000)) {
            break i;
        }
    };
    let os = oneshot(&inp);
    note_input(cov, &inp, &os);
    let n = inp.file.len();
    for _ in 0..ctx.tier.pick(12, 40) {
        let pat = rng.usize_below(PATTERNS.len());
        let mut d = DriveOpts::default();
        let cuts = match pat {
            0 => streamdrv::cuts_const(n, rng.range(1, 24) as usize),
            1 => streamdrv::cuts_from_sizes(&mut rng, n, &[0, 1, 2, 3, 12, 13, 17, 18, 19, 20, 21]),
            2 => {
                let k = rng.range(1, 30) as usize;
                streamdrv::cuts_random(&mut rng, n, k)
            }
            3 => {
                d.empty_writes = true;
                streamdrv::cuts_from_sizes(&mut rng, n, &[1, 5, 19, 20, 21, 64])
            }
            4 => {
                d.flush_between = true;
                streamdrv::cuts_from_sizes(&mut rng, n, &[1, 7, 20, 100])
            }
            5 => {
                // write_all cannot be used when bytes follow the end of the stream
                // (it reports WriteZero for what the decoder rightly refuses): only
                // use it when the one-shot decoder consumed everything
                d.use_write_all = os.verdict.is_ok() && streamdrv::size_in_effect(&inp.file, &inp.options).is_none();
                streamdrv::cuts_from_sizes(&mut rng, n, &[1, 2, 19, 20, 21, 300])
            }
            6 => {
                let mut v = Vec::new();
                if inp.boundaries.is_empty() {
                    v = streamdrv::cuts_random(&mut rng, n, 5);
                } else {
                    for _ in 0..rng.range(1, 6) {
                        let b = *rng.pick(&inp.boundaries);
                        v.push((b + rng.below(3) as usize).saturating_sub(1).min(n));
                    }
                    v.sort();
                }
                v
            }
            _ => {
                let mut v = streamdrv::cuts_random(&mut rng, 18.min(n), 3);
                v.dedup();
                v
            }
        };
        cov.inc("pattern", pat as u32);
        if !compare(&mut out, cov, ctx, &inp, &os, &cuts, &d, PATTERNS[pat]) {
            break;
        }
        out.nontrivial.push(case_hash(&[&inp.file, format!("{:?}{:?}", inp.options, cuts).as_bytes()]));
    }
    out.sample = Some(J::obj().set("input", J::s(inp.desc.as_str())).set("len", J::i(n)).set("oneshot", J::s(os.verdict.short())));
    out
}

fn label(group: &str, i: u32) -> String {
    match group {
        "input_kind" => KINDS[i as usize].to_string(),
        "pattern" => PATTERNS[i as usize].to_string(),
        "oneshot_verdict" => ["one-shot Err", "one-shot Ok"][i as usize].to_string(),
        "option" => ["ReadFromHeader", "ReadHeaderButUseProvided(None)", "ReadHeaderButUseProvided(Some)", "UseProvided(None)", "UseProvided(Some)"][i as usize].to_string(),
        "phase_after_write" => ["header", "data", "failed"][i as usize].to_string(),
        "partial_buf_fill" | "header_tmp_fill" => format!("{} bytes", i),
        _ => std_label(group, i),
    }
}

fn floors(_: Tier, cov: &Cov) -> Vec<String> {
    let mut m = Vec::new();
    if cov.group_nonzero("input_kind") < KINDS.len() || cov.group_nonzero("pattern") < PATTERNS.len() || cov.group_nonzero("option") < 5 {
        m.push("input kinds / chunking patterns / options not all exercised".into());
    }
    // the carry-over buffer must really have been used at many fill levels
    if cov.group_nonzero("partial_buf_fill") < 15 {
        m.push(format!("partial input buffer seen at only {} fill levels", cov.group_nonzero("partial_buf_fill")));
    }
    if cov.group_nonzero("header_tmp_fill") < 12 {
        m.push(format!("header staging buffer seen at only {} fill levels", cov.group_nonzero("header_tmp_fill")));
    }
    if cov.maxes.get("max_cost_symbol_bytes").copied().unwrap_or(0) < 19 {
        m.push("no 19-byte symbol was fed to the streaming decoder".into());
    }
    if cov.group_nonzero("oneshot_verdict") < 2 {
        m.push("only one verdict class among inputs".into());
    }
    m
}

pub fn monitor(tier: Tier) -> Monitor {
    Monitor {
        id: "C05",
        level: "exploration",
        rule: "cases = (input bytes, decode option, division into write calls): inputs of 8 kinds (C08 table cells incl. wrong sizes / trailing / truncated under all 5 option shapes, bit-flipped, spliced, liblzma streams, dumb-encoder streams, garbage behind a valid header, expensive-symbol programs, header-only prefixes); chunkings: ALL single cuts and ALL pairs of cuts for inputs <= 64 bytes (thorough: also all triples for inputs <= 26 bytes), every single cut for inputs <= 700 bytes (thorough: 4 KiB), every single cut (plus pairs near a random earlier cut) for constructed streams whose output wraps the 4096-byte window 1-3 times and whose copies / matched literals read the window at its edge slots (0, 1, 2, dict-2, dict-1; distance = dictionary size), a stream whose last match costs 19 input bytes (17 MiB history) cut at every position around that symbol with and without an earlier cut, 8 pattern families (piece sizes 1..24, sizes around the 20-byte look-ahead, random, empty writes, flush, write_all, symbol boundary +-1); each history compared with the one-shot decoder on the concatenation (verdict; bytes on success); evaluations = stream histories run; distinct by hash of (input, option, cuts) resp. one per exhaustively cut input",
        assumptions: vec![
            "oracle is lzma-rs' own one-shot decoder (the property is an equivalence); that decoder is pinned by C01/C08".into(),
            "error text and the call at which an error surfaces may differ; only the final verdict and, on success, the bytes are compared".into(),
            "a write returning Ok(0) for a non-empty piece is accepted only when the snapshot hook shows the declared size has been produced".into(),
        ],
        families: vec![
            Family { name: "max_cost_symbol", count: tier.pick(2, 24), priority: true, enumerated: false, run: fam_max_cost },
            Family { name: "small_exhaustive", count: tier.pick(600, 30_000), priority: false, enumerated: false, run: fam_small },
            Family { name: "medium_single_cuts", count: tier.pick(250, 8_000), priority: false, enumerated: false, run: fam_medium },
            Family { name: "wrapped_window_edges", count: tier.pick(80, 6_000), priority: false, enumerated: false, run: fam_wrapped },
            Family { name: "patterns", count: tier.pick(2_500, 120_000), priority: false, enumerated: false, run: fam_patterns },
        ],
        label,
        floors,
        summarize: no_summary,
    }
}

//! C10 - The memory limit is honoured exactly.

use super::common::*;
use super::streamdrv::{self, DriveOpts};
use crate::gen::io::{ReaderKind, SharedSink};
use crate::gen::prog::{ProgGen, ProgParams};
use crate::refmodel::lzma::Props;
use crate::refmodel::program::{Interp, Sym};
use crate::runner::*;
use crate::sut::{self, Entry, Verdict};
use crate::util::J;
use lzma_rs::decompress::UnpackedSize;

const API: [&str; 4] = ["one-shot", "stream", "raw decoder", "raw decoder (earlier call + reset on the same object)"];
const LIMITS: [&str; 14] = ["0", "1", "need-1", "need", "need+1", "dict-1", "dict", "dict+1", "usize::MAX", "random", "2^32", "2^32+1", "header dict field - 1", "header dict field"];

struct Run {
    verdict: Verdict,
    out: Vec<u8>,
    win_max: usize,
    over_limit_events: u64,
    peak_heap: u64,
}

#[allow(clippy::too_many_arguments)]
fn run(api: usize, file: &[u8], payload_at: usize, props: Props, dict: u32, len: u64, us: UnpackedSize, memlimit: Option<usize>, cuts: &[usize], measure: bool, allow_inc: bool) -> Run {
    let sink = if measure { SharedSink::counting_only() } else { SharedSink::new() };
    let obs = sut::new_obs(u64::MAX);
    crate::alloc::reset();
    let verdict = match api {
        0 => sut::decode(Entry::Lzma, file, &sut::opts(us, memlimit, allow_inc), ReaderKind::Slice, &sink, &obs).verdict,
        1 => streamdrv::drive(file, &sut::opts(us, memlimit, allow_inc), cuts, &DriveOpts { flush_between: file.len() % 3 == 1, ..DriveOpts::default() }, &sink, &obs).verdict,
        2 => match sut::raw_lzma_new(props.lc, props.lp, props.pb, dict, Some(len), memlimit) {
            Ok(mut d) => sut::raw_lzma_decompress(&mut d, &file[payload_at..], ReaderKind::Slice, &sink, &obs).verdict,
            Err(v) => v,
        },
        _ => match sut::raw_lzma_new(props.lc, props.lp, props.pb, dict, ctor_size(len, memlimit), memlimit) {
            Ok(mut d) => {
                // an earlier call on the same object (complete, or cut short so that it fails),
                // then reset: the limit given at construction must still be in force
                let payload = &file[payload_at..];
                let k = (memlimit.unwrap_or(7) as u64 ^ len) % 3 + 1;
                let warm = &payload[..payload.len() * k as usize / 3];
                let _ = sut::raw_lzma_decompress(&mut d, warm, ReaderKind::Slice, &SharedSink::counting_only(), &sut::new_obs(u64::MAX));
                match sut::guarded(|| d.reset(Some(Some(len)))) {
                    Ok(()) => {
                        crate::alloc::reset();
                        sut::raw_lzma_decompress(&mut d, payload, ReaderKind::Slice, &sink, &obs).verdict
                    }
                    Err(v) => v,
                }
            }
            Err(v) => v,
        },
    };
    let peak = crate::alloc::usage().peak;
    let o = obs.borrow();
    Run { verdict, out: sink.bytes(), win_max: o.win_max, over_limit_events: o.win_over_limit, peak_heap: peak }
}

/// Declared size the reused raw decoder object is CONSTRUCTED with (the judged call always
/// runs after reset(Some(Some(len)))): the same, a tiny one, none, a larger one. R19-C10 cached
/// a "this window can never exceed the limit" verdict from the construction-time size.
fn ctor_size(len: u64, memlimit: Option<usize>) -> Option<u64> {
    match (len / 3 + memlimit.unwrap_or(7) as u64 % 5) % 4 {
        0 => Some(len),
        1 => Some(len.min(1 + len % 7)),
        2 => None,
        _ => Some(len * 2 + 5),
    }
}

fn fam_limits(ctx: &CaseCtx, cov: &mut Cov) -> CaseOut {
    let mut out = CaseOut::default();
    let mut rng = ctx.rng();
    let props = if rng.chance(1, 2) { Props::new(3, 0, 2) } else { Props::new(rng.below(5) as u32, rng.below(3) as u32, rng.below(5) as u32) };
    // header values below 4096 behave as 4096 (the raw decoder takes them literally)
    let dict_field: u32 = *rng.pick(&[4096u32, 4096, 8192, 1 << 16, 1 << 20, 0, 1, 100, 4095, 4097, 5000]);
    let api = rng.usize_below(4);
    let dict: u32 = if api >= 2 { dict_field.max(1) } else { dict_field.max(4096) };
    let d = dict as u64;
    // output length: 0 .. 3 * dict, with emphasis on the wrap point
    let target: u64 = match rng.below(9) {
        0 => 0,
        // many windows of output through a small dictionary (R20-C10: a reused decoder pre-sized
        // its window from the previous call's OUTPUT length - invisible while output <= 3 x window)
        8 if d <= 8192 => rng.range(3 * d, (60 * d).min(300_000)),
        1 => rng.range(1, 20),
        2 => d.saturating_sub(rng.below(3)),
        3 => d + rng.below(3),
        4 => rng.range(1, d),
        _ => rng.range(1, (3 * d).min(ctx.tier.pick(300_000, 3 << 20))),
    };
    let mut it = Interp::new();
    let mut pg = ProgGen::new();
    let mut pp = ProgParams::standard(usize::MAX / 2, d);
    pp.max_out = target as usize;
    pp.long_bias = target > 5000;
    pp.w = [10, 30, 4, 8, 4, 4, 4];
    let prog: Vec<Sym> = if target == 0 { vec![] } else { pg.generate(&mut rng, &pp, &mut it) };
    let enc = match encode_valid(&prog, props, &mut out) {
        Some(e) => e,
        None => return out,
    };
    let len = enc.output.len() as u64;
    let (hdr, us) = if rng.chance(1, 2) {
        (sut::lzma_header(props.byte(), dict_field, Some(Some(len))), UnpackedSize::ReadFromHeader)
    } else {
        (sut::lzma_header(props.byte(), dict_field, None), UnpackedSize::UseProvided(Some(len)))
    };
    let payload_at = hdr.len();
    let mut file = hdr;
    file.extend_from_slice(&enc.payload);
    // a fifth of the streams are cut short (the declared size is then never reached): the limit
    // must still be judged against the window actually needed, not against what was announced;
    // the streaming decoder is then also run with incomplete input allowed (Ok with a prefix)
    let truncated = rng.chance(1, 5) && file.len() > payload_at + 6;
    let allow_inc = truncated && rng.chance(1, 2);
    if truncated {
        let keep = rng.range(payload_at as u64 + 5, file.len() as u64 - 1) as usize;
        file.truncate(keep);
        cov.name(if allow_inc { "truncated_streams.incomplete_allowed" } else { "truncated_streams" }, 1);
    }
    let cuts = {
        let k = rng.range(0, 6) as usize;
        streamdrv::cuts_random(&mut rng, file.len(), k)
    };
    // unlimited reference run: measures the window actually needed
    let base = run(api, &file, payload_at, props, dict, len, us, None, &cuts, false, allow_inc);
    out.evals += 1;
    if base.verdict.is_abnormal() {
        return out; // C07's finding
    }
    let base_ok = if truncated {
        base.out.len() <= enc.output.len() && base.out[..] == enc.output[..base.out.len()]
    } else {
        base.verdict.is_ok() && base.out == enc.output
    };
    if !base_ok {
        out.harness_error(format!("unlimited run of a {} stream: {} with {} bytes; C01's business", if truncated { "truncated" } else { "valid" }, base.verdict.short(), base.out.len()));
        return out;
    }
    let measured = base.win_max;
    let expect_need = if truncated { measured } else { len.min(d) as usize };
    if measured != expect_need {
        // informational: the statement's formula vs. what the hook measured
        out.warnings.push(format!("window hook measured {} but min(dict, produced) = {}", measured, expect_need));
    }
    // a complete stream needs min(dictionary, bytes produced) by definition - every byte passes
    // through the window; the hook is only trusted where the formula has nothing to say (a
    // truncated stream), so a growth path that bypasses the hook cannot lower the bar
    let need = expect_need;
    cov.inc("api", api as u32);
    cov.max("need", need as u64);
    let limits: Vec<(usize, usize)> = vec![
        (0, 0),
        (1, 1),
        (2, need.saturating_sub(1)),
        (3, need),
        (4, need + 1),
        (5, (dict as usize) - 1),
        (6, dict as usize),
        (7, dict as usize + 1),
        (8, usize::MAX),
        (9, rng.range(0, (2 * d).max(2)) as usize),
        (10, 1usize << 32),
        (11, (1usize << 32) + 1),
        (12, (dict_field as usize).saturating_sub(1)),
        (13, dict_field as usize),
    ];
    for (li, m) in limits {
        let measure = rng.chance(1, 4);
        let r = run(api, &file, payload_at, props, dict, len, us, Some(m), &cuts, measure, allow_inc);
        out.evals += 1;
        cov.inc("limit", li as u32);
        cov.inc(if m >= need { "limit_sufficient" } else { "limit_too_small" }, api as u32);
        if api == 3 {
            cov.name(&format!("reused_object_constructed_for.{}", match ctor_size(len, Some(m)) { Some(x) if x == len => "same_size", Some(x) if x < len => "smaller_size", Some(_) => "larger_size", None => "unknown_size" }), 1);
        }
        out.nontrivial.push(case_hash(&[&file, &[api as u8], &m.to_le_bytes()]));
        let what = format!(
            "{}: dict {} output {} bytes (window needed {}), limit {} = {} [lc{} lp{} pb{}]",
            API[api], dict, len, need, LIMITS[li], m, props.lc, props.lp, props.pb
        );
        ctx.say(format!("{} -> {} (window max {})", what, r.verdict.short(), r.win_max));
        let data = || J::obj().set("input_hex", J::s(crate::util::hex_trunc(&file, 2048))).set("case", J::s(what.as_str())).set("cuts", J::s(format!("{:?}", cuts)));
        if r.verdict.is_abnormal() {
            out.violate(format!("C10/{}/{}", API[api], verdict_sig(&r.verdict)), format!("{}: {}", what, r.verdict.short()), data());
            continue;
        }
        if r.over_limit_events > 0 || r.win_max > m {
            out.violate(
                format!("C10/{}/buffered-more-than-limit", API[api]),
                format!("{}: the window grew to {} bytes", what, r.win_max),
                data(),
            );
            continue;
        }
        if m >= need {
            let same = r.verdict.is_ok() == base.verdict.is_ok() && (measure || r.out == base.out);
            if !same {
                out.violate(
                    format!("C10/{}/limit-sufficient-but-result-differs", API[api]),
                    format!("{}{}: {} ({} bytes) but the unlimited run gives {} with {} bytes", what, if truncated { " [input cut short]" } else { "" }, r.verdict.short(), r.out.len(), base.verdict.short(), base.out.len()),
                    data(),
                );
            }
        } else if !r.verdict.is_err() {
            out.violate(
                format!("C10/{}/limit-too-small-but-accepted", API[api]),
                format!("{}: {} although the window needed exceeds the limit", what, r.verdict.short()),
                data(),
            );
        }
        if measure {
            // coarse second witness: heap growth stays proportional to the limit
            let table = (0x300u64 << (props.lc + props.lp)) * 2;
            // (a Vec that grows by doubling holds old + new capacity for a moment: 3 x the window;
            // everything else the decoder allocates is a few KiB - the largest excess ever observed
            // on the unchanged tree is reported as heap_peak_over_table_and_3x_window_bytes, ~4.5 KiB.
            // R20-C10 pre-sized a reused decoder's window from the previous call's OUTPUT length,
            // which the WinGrow hook does not see; 64 KiB of slack instead of 1 MiB exposes it)
            let allowed = table + 3 * (m.min(need) as u64) + (64 << 10);
            cov.max("heap_peak_over_table_bytes", r.peak_heap.saturating_sub(table));
            cov.max("heap_peak_over_table_and_3x_window_bytes", r.peak_heap.saturating_sub(table + 3 * (m.min(need) as u64)));
            cov.name("allocator_measured_runs", 1);
            if r.peak_heap > allowed {
                out.violate(
                    format!("C10/{}/heap-out-of-proportion-to-limit", API[api]),
                    format!("{}: peak heap {} bytes (literal table {}), allowed {}", what, r.peak_heap, table, allowed),
                    data(),
                );
            }
        }
    }
    out.sample = Some(J::obj().set("api", J::s(API[api])).set("dict", J::i(dict)).set("output_len", J::i(len)).set("window_needed", J::i(need)).set("cuts", J::s(format!("{:?}", cuts))));
    out
}

fn label(group: &str, i: u32) -> String {
    match group {
        "api" | "limit_sufficient" | "limit_too_small" => API[i as usize].to_string(),
        "limit" => LIMITS[i as usize].to_string(),
        _ => std_label(group, i),
    }
}

fn floors(_: Tier, cov: &Cov) -> Vec<String> {
    let mut m = Vec::new();
    if cov.group_nonzero("api") < 4 || cov.group_nonzero("limit") < 14 || cov.group_nonzero("limit_sufficient") < 4 || cov.group_nonzero("limit_too_small") < 4 {
        m.push("api x limit grid incomplete".into());
    }
    m
}

pub fn monitor(tier: Tier) -> Monitor {
    Monitor {
        id: "C10",
        level: "exploration",
        rule: "per valid stream (header dictionary field 0 / 1 / 100 / 4095 / 4096 / 4097 / 5000 / 8192 / 64 KiB / 1 MiB - values below 4096 act as 4096 except in the raw decoder -, output 0 .. 3 x dict with emphasis on the wrap point, and up to 60 x dict for dictionaries of 8 KiB and less) an unlimited run measures the window actually needed (WinGrow hook), then limits {0, 1, need-1, need, need+1, dict-1, dict, dict+1, usize::MAX, random, 2^32, 2^32+1, header field - 1, header field} are applied through the one-shot API, Stream (random chunking), the raw decoder, and a raw decoder object (constructed for the same, a tiny, an unknown or a larger declared size) that already served an earlier (complete or failing) call and was reset to the real size: m >= need must reproduce the unlimited result, m < need must fail, and the WinGrow hook must never report a buffer above m; a quarter of the runs use a non-storing sink and the counting allocator as a coarse second witness; distinct by hash of (file, api, limit)",
        assumptions: vec![
            "need = the largest window length reported by the hook in the unlimited run; a warning is recorded if it differs from min(dict, produced)".into(),
            "allocator bound is deliberately loose (3 x limit + literal table + 1 MiB): Vec growth doubles".into(),
        ],
        families: vec![Family { name: "limits", count: tier.pick(6_000, 200_000), priority: false, enumerated: false, run: fam_limits }],
        label,
        floors,
        summarize: no_summary,
    }
}

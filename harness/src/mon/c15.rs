//! C15 - Streaming output is always a prefix of the final output and keeps up with input.

use super::common::*;
use super::streamdrv::{self, DriveOpts};
use crate::gen::io::SharedSink;
use crate::gen::prog::{structured_data, ProgGen, ProgParams};
use crate::liblzma as ll;
use crate::refmodel::lzma::{decode as ref_decode, DecStop, Model, Props, SymRecord};
use crate::refmodel::program::{Interp, Sym};
use crate::runner::*;
use crate::sut::{self, Verdict};
use crate::util::{Rng, J};
use lzma_rs::decompress::{Options, UnpackedSize};

pub const LOOKAHEAD: usize = 64;

pub struct ValidStream {
    pub file: Vec<u8>,
    pub hdr: usize,
    pub options: Options,
    pub full: Vec<u8>,
    /// per symbol: (absolute input offset consumed, produced)
    pub table: Vec<(usize, u64)>,
    pub desc: String,
    pub mode: usize,
}

const MODES: [&str; 4] = ["13-byte header, marker", "13-byte header, size", "5-byte header, provided size", "13-byte header, provided size overrides"];

pub fn gen_valid(rng: &mut Rng, tier: Tier) -> Option<ValidStream> {
    let mode = rng.usize_below(4);
    let from_liblzma = rng.chance(1, 4);
    let mut big_dict = false;
    let (props, payload, full, table, has_marker): (Props, Vec<u8>, Vec<u8>, Vec<SymRecord>, bool) = if from_liblzma {
        let p = crate::gen::l2gen::random_props_l2(rng);
        let n = rng.range(1, tier.pick(20_000, 60_000)) as usize;
        let plain = structured_data(rng, n);
        let eo = ll::EncOpts { lc: p.lc, lp: p.lp, pb: p.pb, dict_size: 4096, ..Default::default() };
        let f = ll::alone_encode(&plain, &eo)?;
        let payload = f[13..].to_vec();
        let mut model = Model::new(p);
        let mut hist = Vec::new();
        let r = ref_decode(&mut model, &mut hist, &payload, None, 4096);
        if !matches!(r.stop, DecStop::Marker { code_zero: true }) || hist != plain {
            return None;
        }
        (p, payload, plain, r.table, true)
    } else if rng.chance(1, 10) {
        // near-maximal symbols: the decoder must hold back up to 19 bytes
        let props = Props::new(0, 0, 0);
        let mut prog = crate::gen::prog::floor_program(rng, 31);
        let marker = mode == 0;
        if marker {
            prog.push(Sym::Eos);
        }
        let (payload, table, hist) = crate::refmodel::lzma::encode_program(&prog, props).ok()?;
        big_dict = true;
        (props, payload, hist, table, marker)
    } else {
        let props = Props::new(rng.below(9) as u32, rng.below(5) as u32, rng.below(5) as u32);
        let mut it = Interp::new();
        let mut pg = ProgGen::new();
        let mut pp = ProgParams::standard(rng.range(1, tier.pick(700, 2500)) as usize, 4096);
        pp.long_bias = rng.chance(1, 2);
        let mut prog = pg.generate(rng, &pp, &mut it);
        let marker = mode == 0 || rng.chance(1, 4);
        if marker {
            prog.push(Sym::Eos);
        }
        let (payload, table, hist) = crate::refmodel::lzma::encode_program(&prog, props).ok()?;
        (props, payload, hist, table, marker)
    };
    let len = full.len() as u64;
    if mode == 0 && !has_marker {
        return None;
    }
    let dict: u32 = if big_dict { 1 << 20 } else { 4096 };
    let (hdr, us) = match mode {
        0 => (sut::lzma_header(props.byte(), dict, Some(None)), UnpackedSize::ReadFromHeader),
        1 => (sut::lzma_header(props.byte(), dict, Some(Some(len))), UnpackedSize::ReadFromHeader),
        2 => (sut::lzma_header(props.byte(), dict, None), UnpackedSize::UseProvided(Some(len))),
        _ => (sut::lzma_header(props.byte(), dict, Some(Some(rng.next()))), UnpackedSize::ReadHeaderButUseProvided(Some(len))),
    };
    let h = hdr.len();
    let mut file = hdr;
    file.extend_from_slice(&payload);
    let table: Vec<(usize, u64)> = table.iter().map(|r| (h + r.consumed as usize, r.produced.min(if mode == 0 { u64::MAX } else { len }))).collect();
    Some(ValidStream {
        file,
        hdr: h,
        // a limit that is just sufficient (the dictionary size itself) must be transparent
        options: sut::opts(
            us,
            match rng.below(6) {
                0 => Some(*rng.pick(&[1usize << 20, 1 << 31, usize::MAX])),
                1 => Some(dict as usize + *rng.pick(&[0usize, 1, 100, 271, 272])),
                _ => None,
            },
            true,
        ),
        full,
        table,
        desc: format!(
            "{} | lc{} lp{} pb{} | {} | {} input bytes -> {} output bytes",
            if from_liblzma { "liblzma stream" } else { "generated program" },
            props.lc, props.lp, props.pb, MODES[mode], h + payload.len(), len
        ),
        mode,
    })
}

/// bytes produced by the symbols a decoder can complete within the first k input bytes
pub fn determined(table: &[(usize, u64)], k: usize) -> u64 {
    // table is sorted by consumed offset
    let idx = table.partition_point(|r| r.0 <= k);
    if idx == 0 {
        0
    } else {
        table[idx - 1].1
    }
}

fn check_pass(out: &mut CaseOut, cov: &mut Cov, ctx: &CaseCtx, vs: &ValidStream, cuts: &[usize], chunking: &str) -> bool {
    // the sink's behaviour (whole writes, short writes, a retryable interruption) must not matter
    let sink = SharedSink::varied(case_hash(&[&vs.file]) ^ cuts.len() as u64, 1 << 17);
    let obs = sut::new_obs(u64::MAX);
    // flush() between the pieces (every third pass) must change nothing about what the sink holds
    let flush_between = (cuts.len() + vs.file.len()) % 3 == 0;
    if flush_between {
        cov.name("passes_with_flush_between_pieces", 1);
    }
    // ... and so must zero-length writes between the pieces (every fourth pass)
    let empty_writes = (cuts.len() + vs.file.len()) % 4 == 1;
    if empty_writes {
        cov.name("passes_with_empty_writes_between_pieces", 1);
    }
    let d = DriveOpts { skip_finish: true, flush_between, empty_writes, ..Default::default() };
    let run = streamdrv::drive(&vs.file, &vs.options, cuts, &d, &sink, &obs);
    out.evals += 1;
    let data = || J::obj().set("input_hex", J::s(crate::util::hex_trunc(&vs.file, 4096))).set("stream", J::s(vs.desc.as_str())).set("chunking", J::s(chunking)).set("cuts", J::s(format!("{:?}", &cuts[..cuts.len().min(40)])));
    if !run.verdict.is_ok() {
        out.violate(
            format!("C15/write-failed-on-valid-stream/{}", verdict_sig(&run.verdict)),
            format!("valid stream, {}: {} [{}]", chunking, run.verdict.short(), vs.desc),
            data(),
        );
        return false;
    }
    let mut prev_prod = 0u64;
    let mut prev_sink = 0usize;
    let mut max_lag = 0u64;
    for (n, snap, sink_len) in &run.snaps {
        let need = determined(&vs.table, n.saturating_sub(LOOKAHEAD));
        cov.max("held_back_partial", snap.partial_len as u64);
        cov.max("held_back_tmp", snap.tmp_len as u64);
        if snap.phase == 1 {
            // how many input bytes behind is the decoder really?
            let have = determined(&vs.table, *n);
            max_lag = max_lag.max(have.saturating_sub(snap.produced));
        }
        if snap.produced < need {
            out.violate(
                "C15/does-not-keep-up",
                format!(
                    "after {} input bytes the decoder has produced {} bytes; the first {} input bytes determine {} [{}; {}]",
                    n, snap.produced, n.saturating_sub(LOOKAHEAD), need, vs.desc, chunking
                ),
                data(),
            );
            return false;
        }
        if snap.produced < prev_prod || *sink_len < prev_sink {
            out.violate("C15/not-monotone", format!("produced went from {} to {} after {} bytes [{}]", prev_prod, snap.produced, n, vs.desc), data());
            return false;
        }
        if snap.produced > vs.full.len() as u64 && vs.mode != 0 {
            out.violate("C15/produced-more-than-the-stream-defines", format!("produced {} > {} [{}]", snap.produced, vs.full.len(), vs.desc), data());
            return false;
        }
        prev_prod = snap.produced;
        prev_sink = *sink_len;
    }
    cov.max("max_output_bytes_determined_but_not_yet_produced", max_lag);
    // sink is append-only: final contents being a prefix implies every earlier state was
    let got = &run.out;
    if got.len() > vs.full.len() || got[..] != vs.full[..got.len()] {
        out.violate("C15/sink-not-a-prefix", format!("sink contents are not a prefix of the full output: {} [{}; {}]", describe_mismatch(&vs.full, got), vs.desc, chunking), data());
        return false;
    }
    ctx.say(format!("pass {}: {} snapshots ok", chunking, run.snaps.len()));
    true
}

fn check_prefix_finish(out: &mut CaseOut, cov: &mut Cov, vs: &ValidStream, n: usize, cuts: &[usize], chunking: &str) -> bool {
    let sink = SharedSink::varied(case_hash(&[&vs.file]) ^ (n as u64).wrapping_mul(31) ^ cuts.len() as u64, 1 << 17);
    let obs = sut::new_obs(u64::MAX);
    let run = streamdrv::drive(&vs.file[..n], &vs.options, cuts, &DriveOpts { flush_between: (n + cuts.len()) % 3 == 0, empty_writes: (n + cuts.len()) % 4 == 1, ..Default::default() }, &sink, &obs);
    out.evals += 1;
    cov.inc("prefix_finish_chunking", match chunking { "one write" => 0, "1-byte writes" => 1, "random" => 2, _ => 3 });
    let data = || J::obj().set("input_hex", J::s(crate::util::hex_trunc(&vs.file[..n], 4096))).set("stream", J::s(vs.desc.as_str())).set("prefix_len", J::i(n)).set("chunking", J::s(chunking));
    if n < vs.hdr + 5 {
        // not covered by the statement (header / preamble incomplete): any
        // error value is fine, a panic is not
        if run.verdict.is_abnormal() {
            out.violate(format!("C15/short-prefix/{}", verdict_sig(&run.verdict)), format!("prefix {} bytes: {}", n, run.verdict.short()), data());
            return false;
        }
        cov.name("prefix_shorter_than_header+5", 1);
        return true;
    }
    match &run.verdict {
        Verdict::Ok => {}
        other => {
            out.violate(
                format!("C15/finish-after-prefix-failed/{}", verdict_sig(other)),
                format!("allow_incomplete, prefix of {} of {} bytes ({}): {} [{}]", n, vs.file.len(), chunking, other.short(), vs.desc),
                data(),
            );
            return false;
        }
    }
    let got = &run.out;
    if got.len() > vs.full.len() || got[..] != vs.full[..got.len()] {
        out.violate("C15/finish-returns-non-prefix", format!("finish after {} bytes returned bytes that are not a prefix: {} [{}]", n, describe_mismatch(&vs.full, got), vs.desc), data());
        return false;
    }
    let need = determined(&vs.table, n.saturating_sub(LOOKAHEAD));
    if (got.len() as u64) < need {
        out.violate(
            "C15/finish-returns-too-little",
            format!("finish after {} input bytes returned {} bytes; the first {} input bytes determine {} [{}; {}]", n, got.len(), n.saturating_sub(LOOKAHEAD), need, vs.desc, chunking),
            data(),
        );
        return false;
    }
    true
}

fn fam_streams(ctx: &CaseCtx, cov: &mut Cov) -> CaseOut {
    let mut out = CaseOut::default();
    let mut rng = ctx.rng();
    let vs = loop {
        if let Some(v) = gen_valid(&mut rng, ctx.tier) {
            break v;
        }
    };
    let n = vs.file.len();
    cov.inc("mode", vs.mode as u32);
    cov.max("output_over_window_x", vs.full.len() as u64 / 4096);
    // pass-through runs: snapshot after every piece
    let one: Vec<usize> = (1..n).collect();
    if !check_pass(&mut out, cov, ctx, &vs, &one, "1-byte writes") {
        return out;
    }
    let k = rng.range(1, 40) as usize;
    let r = streamdrv::cuts_random(&mut rng, n, k);
    if !check_pass(&mut out, cov, ctx, &vs, &r, "random") {
        return out;
    }
    let mut sb: Vec<usize> = Vec::new();
    for _ in 0..30 {
        let b = vs.table[rng.usize_below(vs.table.len())].0;
        sb.push((b + rng.below(3) as usize).saturating_sub(1).min(n));
    }
    sb.sort();
    if !check_pass(&mut out, cov, ctx, &vs, &sb, "symbol boundary +-1") {
        return out;
    }
    let sz = *rng.pick(&[2usize, 3, 7, 19, 20, 21, 64, 100]);
    if !check_pass(&mut out, cov, ctx, &vs, &streamdrv::cuts_const(n, sz), "constant size") {
        return out;
    }
    // finish after prefixes
    let all = n <= ctx.tier.pick(400, 6000);
    let mut prefixes: Vec<usize> = if all { (0..=n).collect() } else { (0..ctx.tier.pick(150, 1500)).map(|_| rng.usize_below(n + 1)).collect() };
    for i in 0..40.min(n + 1) {
        prefixes.push(i);
    }
    for _ in 0..20 {
        let b = vs.table[rng.usize_below(vs.table.len())].0;
        prefixes.extend_from_slice(&[b.saturating_sub(1), b.min(n), (b + 1).min(n)]);
    }
    prefixes.push(n);
    prefixes.sort();
    prefixes.dedup();
    if all {
        cov.name("streams_with_every_prefix_finished", 1);
    }
    for p in prefixes {
        let ok = match rng.below(4) {
            0 => check_prefix_finish(&mut out, cov, &vs, p, &[], "one write"),
            1 if p <= 3000 => {
                let c: Vec<usize> = (1..p).collect();
                check_prefix_finish(&mut out, cov, &vs, p, &c, "1-byte writes")
            }
            2 => {
                let k = rng.range(1, 8) as usize;
                let c = streamdrv::cuts_random(&mut rng, p, k);
                check_prefix_finish(&mut out, cov, &vs, p, &c, "random")
            }
            _ => {
                let c = streamdrv::cuts_from_sizes(&mut rng, p, &[1, 2, 19, 20, 21, 50]);
                check_prefix_finish(&mut out, cov, &vs, p, &c, "sizes around 20")
            }
        };
        if !ok {
            break;
        }
    }
    out.nontrivial.push(case_hash(&[&vs.file, &[vs.mode as u8]]));
    out.sample = Some(J::obj().set("stream", J::s(vs.desc.as_str())).set("input_len", J::i(n)).set("output_len", J::i(vs.full.len())).set("symbols", J::i(vs.table.len())));
    out
}

fn label(group: &str, i: u32) -> String {
    match group {
        "mode" => MODES[i as usize].to_string(),
        "prefix_finish_chunking" => ["one write", "1-byte writes", "random", "sizes around 20"][i as usize].to_string(),
        _ => std_label(group, i),
    }
}

fn floors(_: Tier, cov: &Cov) -> Vec<String> {
    let mut m = Vec::new();
    if cov.group_nonzero("mode") < 4 || cov.group_nonzero("prefix_finish_chunking") < 4 {
        m.push("header modes / chunkings incomplete".into());
    }
    if cov.maxes.get("output_over_window_x").copied().unwrap_or(0) < 2 {
        m.push("no stream produced more than two windows of output".into());
    }
    m
}

pub fn monitor(tier: Tier) -> Monitor {
    Monitor {
        id: "C15",
        level: "exploration",
        rule: "per valid stream (generated programs with dict 4096 so the sink really receives laps; liblzma streams; the three header modes + provided-size override), allow_incomplete on: four pass-through runs (1-byte writes = a snapshot after EVERY input length, random cuts, symbol boundary +-1, constant sizes) checking produced >= D(n-64), monotonicity and the sink-prefix relation at every snapshot, then finish after prefixes (every prefix length for streams <= 400 bytes, thorough 6000; else sampled + every length < 40 + symbol boundaries +-1) under four chunkings checking success, prefix relation and length >= D(n-64); D(k) from the reference decoder's per-symbol (consumed, produced) table; evaluations = stream histories; distinct = one per stream",
        assumptions: vec![
            "produced-so-far is read through the snapshot hook (the sink alone lags by up to a window, which the property does not bound)".into(),
            "the sink used is append-only, so the final prefix check covers every earlier moment".into(),
        ],
        families: vec![Family { name: "streams", count: tier.pick(800, 16_000), priority: false, enumerated: false, run: fam_streams }],
        label,
        floors,
        summarize: no_summary,
    }
}

#!/bin/bash
# ./run_all.sh [tier] [seed...]  - run every check, report exit codes and wall time
cd "$(dirname "$0")"
TIER=${1:-quick}; shift
SEEDS=${@:-1}
for s in $SEEDS; do
  for i in $(seq -w 1 18); do
    p=C$i
    t0=$(date +%s.%N)
    out=$(./check $p --tier $TIER --seed $s 2>&1); rc=$?
    t1=$(date +%s.%N)
    printf "%s seed=%s rc=%d %.1fs %s\n" $p $s $rc $(echo "$t1 - $t0" | bc) "$(echo "$out" | grep -E "^C[0-9]+ \[chk" | tail -1 | cut -c1-150)"
    if [ $rc -ne 0 ]; then echo "$out" | grep -E "VIOLATION|INCONCLUSIVE|inconclusive|signature|detail" | head -8; fi
  done
done

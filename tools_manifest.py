#!/usr/bin/env python3
"""Regenerates /verif/MANIFEST.json from the table below (run after adding a monitor)."""
import json, subprocess

TECH = "runtime monitoring"
CHECKS = {
 "C01": ("exploration", "§4 C01",
  "Generated well-formed LZMA streams (all 225 lc/lp/pb settings, corner programs for every automaton cell, window-wrap programs, liblzma-written streams) are decoded by the real code and compared byte-for-byte with interpret(program); decoder hooks report which cells, lengths, distance slots and wrap situations were really decoded. Sampled, not universal.",
  "Trusted: reference encoder (self-checked against system liblzma on every run), rustc/std. lc+lp>4 cannot be arbitrated by liblzma.",
  TECH + ": reference-model differential oracle + decoder hook coverage"),
 "C02": ("exploration", "§4 C02",
  "Generated LZMA2 chunk sequences (all reset classes, inherited state, property changes, size extremes, liblzma-written streams) decoded through three entry points and compared with interpret(); every stream is also decoded by liblzma; Chunk hooks report classes and transitions parsed. Size extremes include compressed payloads of exactly 65535 and 65536 bytes.",
  "Trusted: reference LZMA2 writer (cross-decoded by liblzma per case).",
  TECH + ": reference-model differential oracle + chunk hook coverage"),
 "C03": ("exploration", "§4 C03",
  "Generated .xz files (0-300 blocks, three check types, all size-field combinations, header padding to 1024 bytes, 1-4 byte integers, thorough: a 256 MiB block) and liblzma-written files decoded under every reader kind and compared with the block plaintexts; liblzma decodes each generated file too. Includes block sizes on every multi-byte-integer boundary and files with 126-140 blocks.",
  "Trusted: reference XZ writer (cross-decoded by liblzma per case). 6-9 byte integers are unreachable in valid files.",
  TECH + ": reference-model differential oracle over generated containers"),
 "C06": ("fault_enumeration", "§4 C06",
  "Per valid base file: every integrity/size field replaced by boundary values and every single-bit variation with enclosing CRCs recomputed (must be Err), every single-bit flip of the file (never Ok with different output under CRC32/CRC64; Err outside the LZMA2 payload), every truncation (Err); in overflow-checked and release arithmetic. Exhaustive per base file, base files sampled. Also structural index faults (records dropped / added with the count following) and sampled pairs of field faults.",
  "Expected verdicts by construction; strict XZ parser (self-checked against liblzma) confirms every field mutant is invalid.",
  TECH + ": exhaustive per-input fault enumeration with CRC-repairing mutators"),
 "C17": ("fault_enumeration", "§4 C17",
  "Per valid LZMA2 base stream: each framing field at every chunk position set to boundary-violating values, every truncation point; mutants confirmed invalid by the reference reader; three entry points. A systematic family walks every control byte and every invalid property byte, also on chunks above 64 KiB (non-zero size bits); raw-chunk-only size mutations are judged by the reference in both directions.",
  "Expected Err by construction. Under-consumption leniencies of lzma-rs are counted, not judged (not in the statement's list).",
  TECH + ": per-input framing-fault enumeration"),
 "C18": ("exploration", "§4 C18",
  "Well-formed files using each unsupported feature (16 check IDs, delta/BCJ chains written by liblzma, unknown filter IDs, every reserved bit, concatenated streams, stream padding) must be refused; liblzma confirms the files are well-formed. Also the unsupported feature in a later block, chains of 1-4 filters, filter IDs congruent to 0x21 modulo 2^8/2^16/2^32, padding up to 16 KiB.",
  "Zero-block SHA-256 file: either verdict accepted (nothing to verify).",
  TECH + ": negative oracle over enumerated feature families"),
 "C04": ("exploration", "§4 C04",
  "Every encoder (lzma x 3 options, lzma2, xz) over boundary lengths, 7 content kinds and 5 input fragmentations, plus a hook-guided search for carry / pending-0xFF paths in the range encoder; each output must decode back with lzma-rs, pass the reference decoder / strict LZMA2 reader / strict XZ parser (header fields, exact payload length) and decode with liblzma. Inputs constructed from an exact model of the literal coder drive the real encoder through pending-0xFF runs of 8-14 bytes resolved with and without a carry (observed by the RcShift hook).",
  "Trusted: reference decoder, strict parsers (self-checked) and system liblzma as independent conforming decoders.",
  TECH + ": round-trip + independent-decoder oracle, RcShift hook feedback"),
 "C05": ("exploration", "§4 C05",
  "Stream histories vs the one-shot decoder on the same bytes: all single cuts and all pairs for inputs <= 64 bytes, every single cut for inputs <= 700 bytes (thorough 4 KiB), 8 chunking pattern families; inputs of 8 kinds incl. near-maximal (17-18 byte) symbols; snapshot hook shows the carry-over buffer at every fill level 0-20.",
  "Oracle is lzma-rs' own one-shot decoder (equivalence property), pinned by C01/C08.",
  TECH + ": differential history monitor with exhaustive per-input cut enumeration"),
 "C10": ("exploration", "§4 C10",
  "Unlimited run measures the window actually needed (WinGrow hook); ten limit values around need and dict through one-shot / Stream / raw decoder: sufficient limits reproduce the unlimited result, insufficient ones fail, the hook never reports a buffer above the limit; counting allocator as coarse second witness. Header dictionary fields below 4096 and off the 4096 grid; limits 2^32 and 2^32+1.",
  "need is measured by the hook; allocator bound deliberately loose.",
  TECH + ": invariant hook on window growth + differential run + counting allocator"),
 "C15": ("exploration", "§4 C15",
  "Per valid stream with allow_incomplete: a snapshot after every input length (1-byte writes) and three more chunkings check produced >= D(n-64), monotonicity and the prefix relation; finish after every prefix (short streams) / sampled prefixes under four chunkings must succeed and return a long-enough prefix. D from the reference decoder's per-symbol table. Includes near-maximal (17-18 byte) symbols and just-sufficient memory limits.",
  "produced-so-far read through the snapshot hook; append-only sink.",
  TECH + ": online trace checker over snapshot history against reference per-symbol table"),
 "C16": ("exploration", "§4 C16",
  "Random call histories (write/empty write/flush/get_output/finish) over six scenarios continued up to 50 calls past the latch event; an online 3-state latch checker judges each call at the API boundary; snapshot hook confirms the internal phase. Nine scenarios incl. errors inside payload bytes staged with a 5-byte header arriving in pieces, invalid properties bytes in pieces, unusual sink error kinds.",
  "The statement is the oracle.",
  TECH + ": online latch-automaton checker over recorded call histories"),
 "C07": ("exploration", "§4 C07",
  "Hostile bytes from 9 sources through 6 entry points (all options, memlimits, raw constructor parameter grid, Stream under random chunking) with three monitors per execution: panic capture, a logical step budget fed by Tick hooks at every loop head, and a counting allocator with a non-storing capped sink; run in overflow-checked and in release arithmetic; thorough adds a Miri slice. Also reuse histories on one raw decoder and structured multi-field extremes behind repaired CRCs; a single allocation request of 32 GiB or more is reported as a violation instead of aborting the process.",
  "Bounds: ticks <= 64 x (input + produced) + 4096; peak heap <= 8 MiB + 8 x (consumed + produced). Constructor panics on out-of-range lc/lp/pb count as 'not accepted'.",
  TECH + ": panic / step-budget / counting-allocator monitors under hostile workload (+ Miri slice)"),
 "C12": ("fault_enumeration", "§4 C12",
  "Per job (11 operations: decoders, raw decoders, Stream, all encoders): every sink write k failing, flush failing, every source call k failing, Interrupted once, underlying reads failing behind BufReaders, short-writing sinks; injected fault => Err and sink is a prefix of the fault-free output; Ok => sink equals it; LZMA/LZMA2 decoders leave nothing unflushed. Also other error kinds (UnexpectedEof, WouldBlock, WriteZero, ...) and two-event faults (short-writing sink whose k-th write fails).",
  "Oracle = fault-free run of the same call. Exhaustive in k per job up to the stated caps; jobs sampled.",
  TECH + ": exhaustive per-input I/O fault injection with prefix oracle"),
 "C13": ("exploration", "§4 C13",
  "Per input (valid and invalid, 8 sources, 5 decoders) the slice-reader run is compared with Cursor, BufReader of every capacity 1..64, and randomised short-read readers: same verdict, and on success same bytes and consumed count. Also BufReader capacities equal to every field boundary of generated .xz files (+-1).",
  "Differential against lzma-rs' own slice-reader run; error text differences are warnings.",
  TECH + ": differential monitor over reader fragmentations"),
 "C14": ("exploration", "§4 C14",
  "Random histories of decompress(valid/truncated/corrupt) and reset calls on raw LzmaDecoder and Lzma2Decoder, up to 12 (thorough 200) reuse cycles; after every reset the next decode is compared in full (verdict incl. text, bytes, consumed) with a freshly constructed decoder; normalised Debug output as extra witness. A digest hook over the whole adaptive state is compared after every reset; on a difference the recorded history is replayed to search for a distinguishing stream.",
  "3-line model of the size in effect (reset(None) keeps it).",
  TECH + ": differential history monitor (reset vs fresh)"),
 "C08": ("exploration", "§4 C08",
  "Table-driven: option x header-field x provided-size x stream-shape cells, each decided by the reference decoder run with the size in effect, executed through the one-shot API and through Stream; header byte consumption observed on the reader. Provided sizes include 2^64-1, 2^64-2, 2^63, 2^32 and len+2^32; outputs ending exactly on a window multiple with every kind of last symbol.",
  "Trusted: reference decoder. The documented clean-EOF leniency is accepted either way.",
  TECH + ": rule-table oracle over generated streams"),
 "C09": ("exploration", "§4 C09",
  "Streams with exactly one out-of-window copy (9 kinds x 6 positions relative to the wrap point, both window types) must fail and must not deliver fabricated bytes; the Sym hook proves the intended distance was decoded. Also small memory limits, the Stream entry point, dictionary sizes off the usual grid, and a raw decoder reused without reset.",
  "Expected verdict is Err by construction.",
  TECH + ": negative oracle by construction + Sym hook"),
 "C11": ("exploration", "§4 C11",
  "Valid payloads followed by arbitrary bytes under 6 reader kinds: the reader's logical position after success must equal the payload length computed by the reference encoder; whole-file decoders must reject trailing bytes. Includes payloads constructed so that the range register is exactly 2^24 after the last symbol.",
  "Trusted: reference encoder's payload length (liblzma's LZMA2 decoder accepts it only if exact).",
  TECH + ": reader-position probe against reference payload length"),
}

NOT_BUILT_REASON = "monitor designed (DESIGN.md §4) but its check is not built yet in this commit; it will be claimed once the check exists"

def main():
    props = [json.loads(l) for l in open('/verif/properties.jsonl')]
    hooks = subprocess.run(['git', '-C', '/repo', 'log', '--format=%h %s'], capture_output=True, text=True).stdout.splitlines()
    hook_commits = [l.split()[0] for l in hooks if 'verif' in l.lower() and not l.split(' ', 1)[1].startswith('fix:')]
    m = {
        "version": 1,
        "setup_cmd": "./check build",
        "hooks": {
            "guard": "cargo feature `verif` of lzma-rs (off by default)",
            "enable": "the harness crate /verif/harness path-depends on /repo with features [stream, raw_decoder, verif]; every ./check invocation runs `cargo build --offline`, which rebuilds lzma-rs from /repo's working tree",
            "baseline_off_cmd": "cd /repo && cargo test --workspace --no-fail-fast --offline",
            "source_commits": hook_commits,
            "add_only": True,
        },
        "engines": [{
            "name": "lzverif", "path": "harness", "serves_properties": sorted(CHECKS),
            "kind_free_text": "Rust harness running the real lzma-rs code under generated / hostile / fault-injected workloads: reference-model oracle (cross-validated against system liblzma at the start of every run), hook-event monitors, fault-injecting readers and sinks, counting allocator, logical step budget; 16 worker threads",
        }],
        "checks": [],
        "not_applicable": [],
        "notes": "Exit codes of every check: 0 held on everything explored, 1 violation (VIOLATION line + replay file), 2 inconclusive (oracle self-check / harness / build problem; never a VIOLATION line). VERIF_SEED and VERIF_TIER are honoured; --seed/--tier override them.",
    }
    for p in props:
        pid = p["id"]
        if pid in CHECKS:
            level, ref, text, note, tech = CHECKS[pid]
            m["checks"].append({
                "property_id": pid,
                "quick_cmd": f"./check {pid} --tier quick",
                "thorough_cmd": f"./check {pid} --tier thorough",
                "evidence_file": f"/verif/evidence/{pid}.json",
                "replay_cmd_template": f"./check {pid} --replay {{path}}",
                "engine": "lzverif",
                "level_claimed": {"category": level, "text": text, "design_ref": "DESIGN.md " + ref},
                "level_note": note,
                "technique": tech,
            })
        else:
            m["not_applicable"].append({"property_id": pid, "reason": NOT_BUILT_REASON})
    json.dump(m, open('/verif/MANIFEST.json', 'w'), indent=1)
    print("claimed:", [c["property_id"] for c in m["checks"]])

if __name__ == '__main__':
    main()
